package main

// Exact integer characterisation of int64(time.Duration(d).Seconds()).
//
// Duration.Seconds() is  float64(sec) + float64(nsec)/1e9  with sec = d/1e9, nsec = d%1e9
// (truncated). For |sec| < 2^53 both conversions are exact, q = RNE(nsec/1e9) ∈ [0,1) and the sum
// RNE(sec + q) lies in [sec, sec+1]; it reaches sec+1 exactly when q ≥ 1 − 2^(k−53), where
// (sec+1) ∈ (2^k, 2^(k+1)] (spacing of doubles just below sec+1 is 2^(k−52); ties go to the even
// neighbour sec+1). Since q is monotone in nsec this is  nsec ≥ N_k  for a threshold N_k that the
// engine computes here with the machine's own IEEE-754 arithmetic (binary search), and validates
// against direct evaluation in `vcheck selftest`. IEEE rounding is sign-symmetric, so negative
// durations mirror.

import (
	"math/big"
	"time"
)

const nBinades = 45

var secThreshold [nBinades]int64

func nativeSecs(s, n int64) int64 {
	d := time.Duration(s)*time.Second + time.Duration(n)
	return int64(d.Seconds())
}

func init() {
	for k := 0; k < nBinades; k++ {
		var s int64 = 1
		if k >= 1 {
			s = int64(1) << uint(k)
		}
		// s+1 ∈ (2^k, 2^(k+1)]
		if k >= 33 { // beyond Duration range: compute with plain floats
			secThreshold[k] = thresholdPlain(s)
			continue
		}
		lo, hi := int64(0), int64(1000000000) // minimal n with round-up; 1e9 = never
		for lo < hi {
			mid := (lo + hi) / 2
			if nativeSecs(s, mid) == s+1 {
				hi = mid
			} else {
				lo = mid + 1
			}
		}
		secThreshold[k] = lo
	}
}

func thresholdPlain(s int64) int64 {
	f := func(n int64) bool { return int64(float64(s)+float64(n)/1e9) == s+1 }
	lo, hi := int64(0), int64(1000000000)
	for lo < hi {
		mid := (lo + hi) / 2
		if f(mid) {
			hi = mid
		} else {
			lo = mid + 1
		}
	}
	return lo
}

// durationSecondsInt returns int64(Duration(d).Seconds()) as an integer term.
func durationSecondsInt(d *Term) *Term {
	if c, ok := d.ConstInt(); ok && c.IsInt64() {
		return IntC64(int64(time.Duration(c.Int64()).Seconds()))
	}
	nonNeg := d.lo != nil && d.lo.Sign() >= 0
	abs := d
	if !nonNeg {
		abs = Ite(Ge(d, IntC64(0)), d, Neg(d))
		abs.lo = bi(0)
		if d.lo != nil && d.hi != nil {
			abs.hi = maxB(new(big.Int).Abs(d.lo), new(big.Int).Abs(d.hi))
		}
	}
	s := Div(abs, IntC(nsPerSec))
	n := Mod(abs, IntC(nsPerSec))
	// threshold chain over binades of s+1
	var thr *Term = IntC64(secThreshold[nBinades-1])
	for k := nBinades - 2; k >= 0; k-- {
		if secThreshold[k] == 1000000000 && allNever(k) {
			continue
		}
		thr = Ite(Lt(s, IntC(pow2(uint(k+1)))), IntC64(secThreshold[k]), thr)
	}
	// binades below the first rounding one never round up
	first := 0
	for first < nBinades && secThreshold[first] == 1000000000 {
		first++
	}
	if first > 0 && first < nBinades {
		thr = Ite(Lt(s, IntC(pow2(uint(first)))), IntC64(1000000000), thr)
	}
	r := Add(s, Ite(Ge(n, thr), IntC64(1), IntC64(0)))
	if nonNeg {
		return r
	}
	return Ite(Ge(d, IntC64(0)), r, Neg(r))
}

func allNever(k int) bool {
	for i := 0; i <= k; i++ {
		if secThreshold[i] != 1000000000 {
			return false
		}
	}
	return true
}
