package main

import (
	"math/big"
)

var (
	pow256  = pow2(256)
	ten18   = new(big.Int).Exp(bi(10), bi(18), nil)
	five17  = new(big.Int).Mul(bi(5), new(big.Int).Exp(bi(10), bi(17), nil))
	decMaxB = pow2(315) // LegacyDec: maxDecBitLen = 315 bits for the raw value
)

func big_(v Value) VBig {
	switch x := v.(type) {
	case VBig:
		return x.cur()
	case VPtr:
		if x.Nil {
			return VBig{Nil: true}
		}
		return x.load().(VBig).cur()
	}
	panic(engErr("expected math.Int, got %T", v))
}
func dec_(v Value) VDec {
	switch x := v.(type) {
	case VDec:
		return x
	case VPtr:
		if x.Nil {
			return VDec{Nil: true}
		}
		return x.load().(VDec)
	}
	panic(engErr("expected LegacyDec, got %T", v))
}

func (p *Path) nonNil(b VBig, what string) *Term {
	if b.Nil {
		p.goPanicf("nil pointer dereference (math.Int %s on nil Int)", what)
	}
	return b.T
}
func (p *Path) nonNilD(d VDec, what string) *Term {
	if d.Nil {
		p.goPanicf("nil pointer dereference (LegacyDec %s on nil Dec)", what)
	}
	return d.T
}

// checkIntRange: math.Int results must fit in 256 bits (|x| < 2^256) else panic "Int overflow".
func (p *Path) checkIntRange(t *Term) *Term {
	lim := pow256
	if t.lo != nil && t.hi != nil && t.hi.Cmp(lim) < 0 && t.lo.Cmp(new(big.Int).Neg(lim)) > 0 {
		return t
	}
	ok := And(Lt(t, IntC(lim)), Gt(t, IntC(new(big.Int).Neg(lim))))
	if !p.Decide(ok) {
		p.goPanicf("Int overflow")
	}
	return t
}

func (p *Path) checkDecRange(t *Term) *Term {
	lim := decMaxB
	if t.lo != nil && t.hi != nil && t.hi.Cmp(lim) < 0 && t.lo.Cmp(new(big.Int).Neg(lim)) > 0 {
		return t
	}
	ok := And(Lt(t, IntC(lim)), Gt(t, IntC(new(big.Int).Neg(lim))))
	if !p.Decide(ok) {
		p.goPanicf("Int overflow") // LegacyDec panics with "Int overflow" too
	}
	return t
}

// roundHalfEvenDiv: (x / d) rounded half to even, d > 0 const — mirrors chopPrecisionAndRound
func roundHalfEvenDiv(x *Term, d *big.Int) *Term {
	if c, ok := x.ConstInt(); ok {
		neg := c.Sign() < 0
		a := new(big.Int).Abs(c)
		q, r := new(big.Int).QuoRem(a, d, new(big.Int))
		half := new(big.Int).Quo(d, bi(2))
		switch r.Cmp(half) {
		case 1:
			q.Add(q, bi(1))
		case 0:
			if q.Bit(0) == 1 {
				q.Add(q, bi(1))
			}
		}
		if neg {
			q.Neg(q)
		}
		return IntC(q)
	}
	dT := IntC(d)
	half := IntC(new(big.Int).Quo(d, bi(2)))
	abs := x
	nonNeg := x.lo != nil && x.lo.Sign() >= 0
	if !nonNeg {
		abs = Ite(Ge(x, IntC64(0)), x, Neg(x))
		if x.lo != nil && x.hi != nil {
			abs.lo = bi(0)
			abs.hi = maxB(new(big.Int).Abs(x.lo), new(big.Int).Abs(x.hi))
		}
	}
	q := Div(abs, dT)
	r := Mod(abs, dT)
	up := Or(Gt(r, half), And(Eq(r, half), Eq(Mod(q, IntC64(2)), IntC64(1))))
	res := Ite(up, Add(q, IntC64(1)), q)
	if nonNeg {
		return res
	}
	return Ite(Ge(x, IntC64(0)), res, Neg(res))
}

func registerMath(e *Engine) {
	in := e.intrinsics
	const M = "cosmossdk.io/math."
	const I = "(cosmossdk.io/math.Int)."
	const D = "(cosmossdk.io/math.LegacyDec)."

	in[M+"NewInt"] = func(p *Path, a []Value) Value { return VBig{T: tInt(a[0])} }
	in[M+"NewIntFromUint64"] = func(p *Path, a []Value) Value { return VBig{T: tInt(a[0])} }
	in[M+"ZeroInt"] = func(p *Path, a []Value) Value { return VBig{T: IntC64(0)} }
	in[M+"OneInt"] = func(p *Path, a []Value) Value { return VBig{T: IntC64(1)} }
	in[M+"NewIntFromString"] = func(p *Path, a []Value) Value {
		s, ok := tStr(a[0]).ConstStr()
		if !ok {
			panic(engErr("NewIntFromString on symbolic string"))
		}
		n, ok := new(big.Int).SetString(s, 0)
		if !ok {
			return tuple(VBig{Nil: true}, VBool{tFalse})
		}
		return tuple(VBig{T: IntC(n)}, VBool{tTrue})
	}
	in[M+"NewUint"] = func(p *Path, a []Value) Value { return VBig{T: tInt(a[0])} }
	// serialised size of an Int: at least one byte; only compared with zero / added up
	in["(cosmossdk.io/math.Int).Size"] = func(p *Path, a []Value) Value { return VInt{p.freshInt("intsize", bi(1), bi(80))} }
	in["(*cosmossdk.io/math.Int).Size"] = in["(cosmossdk.io/math.Int).Size"]
	in["(cosmossdk.io/math.LegacyDec).Size"] = in["(cosmossdk.io/math.Int).Size"]
	in["(*cosmossdk.io/math.LegacyDec).Size"] = in["(cosmossdk.io/math.Int).Size"]
	in["github.com/cosmos/gogoproto/types.SizeOfStdTime"] = func(p *Path, a []Value) Value { return VInt{p.freshInt("timesize", bi(0), bi(16))} }
	in["(cosmossdk.io/math.Uint).Uint64"] = func(p *Path, a []Value) Value { return VInt{big_(a[0]).T} }

	bin := func(name string, f func(x, y *Term) *Term) {
		in[I+name] = func(p *Path, a []Value) Value {
			x := p.nonNil(big_(a[0]), name)
			y := p.nonNil(big_(a[1]), name)
			return VBig{T: p.checkIntRange(f(x, y))}
		}
	}
	bin("Add", Add)
	bin("Sub", Sub)
	bin("Mul", Mul)
	in[I+"Quo"] = func(p *Path, a []Value) Value {
		x := p.nonNil(big_(a[0]), "Quo")
		y := p.nonNil(big_(a[1]), "Quo")
		if !p.Decide(Not(Eq(y, IntC64(0)))) {
			p.goPanicf("Division by zero")
		}
		return VBig{T: GoQuo(x, y)}
	}
	raw := func(name string, f func(x, y *Term) *Term) {
		in[I+name] = func(p *Path, a []Value) Value {
			x := p.nonNil(big_(a[0]), name)
			return VBig{T: p.checkIntRange(f(x, tInt(a[1])))}
		}
	}
	raw("AddRaw", Add)
	raw("SubRaw", Sub)
	raw("MulRaw", Mul)
	in[I+"QuoRaw"] = func(p *Path, a []Value) Value {
		x := p.nonNil(big_(a[0]), "QuoRaw")
		y := tInt(a[1])
		if !p.Decide(Not(Eq(y, IntC64(0)))) {
			p.goPanicf("Division by zero")
		}
		return VBig{T: GoQuo(x, y)}
	}
	in[I+"Neg"] = func(p *Path, a []Value) Value { return VBig{T: Neg(p.nonNil(big_(a[0]), "Neg"))} }
	in[I+"Abs"] = func(p *Path, a []Value) Value {
		x := p.nonNil(big_(a[0]), "Abs")
		return VBig{T: Ite(Ge(x, IntC64(0)), x, Neg(x))}
	}
	cmp := func(name string, f func(x, y *Term) *Term) {
		in[I+name] = func(p *Path, a []Value) Value {
			x := p.nonNil(big_(a[0]), name)
			y := p.nonNil(big_(a[1]), name)
			return VBool{f(x, y)}
		}
	}
	cmp("GT", Gt)
	cmp("GTE", Ge)
	cmp("LT", Lt)
	cmp("LTE", Le)
	cmp("Equal", Eq)
	in[I+"IsZero"] = func(p *Path, a []Value) Value { return VBool{Eq(p.nonNil(big_(a[0]), "IsZero"), IntC64(0))} }
	in[I+"IsNegative"] = func(p *Path, a []Value) Value { return VBool{Lt(p.nonNil(big_(a[0]), "IsNegative"), IntC64(0))} }
	in[I+"IsPositive"] = func(p *Path, a []Value) Value { return VBool{Gt(p.nonNil(big_(a[0]), "IsPositive"), IntC64(0))} }
	in[I+"IsNil"] = func(p *Path, a []Value) Value { return VBool{BoolC(big_(a[0]).Nil)} }
	in[I+"Sign"] = func(p *Path, a []Value) Value {
		x := p.nonNil(big_(a[0]), "Sign")
		return VInt{Ite(Gt(x, IntC64(0)), IntC64(1), Ite(Lt(x, IntC64(0)), IntC64(-1), IntC64(0)))}
	}
	in[I+"IsInt64"] = func(p *Path, a []Value) Value {
		x := p.nonNil(big_(a[0]), "IsInt64")
		ty := IntTy{64, true}
		return VBool{And(Ge(x, IntC(ty.Min())), Le(x, IntC(ty.Max())))}
	}
	in[I+"IsUint64"] = func(p *Path, a []Value) Value {
		x := p.nonNil(big_(a[0]), "IsUint64")
		ty := IntTy{64, false}
		return VBool{And(Ge(x, IntC(ty.Min())), Le(x, IntC(ty.Max())))}
	}
	in[I+"Int64"] = func(p *Path, a []Value) Value {
		x := p.nonNil(big_(a[0]), "Int64")
		ty := IntTy{64, true}
		if !p.Decide(And(Ge(x, IntC(ty.Min())), Le(x, IntC(ty.Max())))) {
			p.goPanicf("Int64() out of bound")
		}
		return VInt{clampRange(x, ty)}
	}
	in[I+"Uint64"] = func(p *Path, a []Value) Value {
		x := p.nonNil(big_(a[0]), "Uint64")
		ty := IntTy{64, false}
		if !p.Decide(And(Ge(x, IntC(ty.Min())), Le(x, IntC(ty.Max())))) {
			p.goPanicf("Uint64() out of bounds")
		}
		return VInt{clampRange(x, ty)}
	}
	in[I+"String"] = func(p *Path, a []Value) Value {
		b := big_(a[0])
		if b.Nil {
			return VStr{StrC("<nil>")}
		}
		if c, ok := b.T.ConstInt(); ok {
			return VStr{StrC(c.String())}
		}
		return VStr{p.intToStrDecided(b.T)}
	}
	in[I+"ModRaw"] = func(p *Path, a []Value) Value {
		x, y := p.nonNil(big_(a[0]), "ModRaw"), tInt(a[1])
		if !p.Decide(Not(Eq(y, IntC64(0)))) {
			p.goPanicf("division by zero")
		}
		// big.Int.Mod: Euclidean modulus (result >= 0)
		return VBig{T: Mod(x, y)}
	}
	in[I+"Mod"] = func(p *Path, a []Value) Value {
		x, y := p.nonNil(big_(a[0]), "Mod"), p.nonNil(big_(a[1]), "Mod")
		if !p.Decide(Not(Eq(y, IntC64(0)))) {
			p.goPanicf("division by zero")
		}
		return VBig{T: Mod(x, y)}
	}
	in[I+"BigInt"] = func(p *Path, a []Value) Value {
		if big_(a[0]).Nil {
			return VPtr{Nil: true}
		}
		return VPtr{Obj: p.newObj(VOpaque{"big.Int"}, "bigint")}
	}
	in[M+"MinInt"] = func(p *Path, a []Value) Value {
		x, y := big_(a[0]).T, big_(a[1]).T
		return VBig{T: Ite(Le(x, y), x, y)}
	}
	in[M+"MaxInt"] = func(p *Path, a []Value) Value {
		x, y := big_(a[0]).T, big_(a[1]).T
		return VBig{T: Ite(Ge(x, y), x, y)}
	}

	// ----- LegacyDec -----
	in[M+"LegacyNewDecFromInt"] = func(p *Path, a []Value) Value {
		x := p.nonNil(big_(a[0]), "NewDecFromInt")
		return VDec{T: p.checkDecRange(Mul(x, IntC(ten18))), IntPart: x}
	}
	in[M+"LegacyNewDec"] = func(p *Path, a []Value) Value { return VDec{T: Mul(tInt(a[0]), IntC(ten18))} }
	in[M+"LegacyNewDecWithPrec"] = func(p *Path, a []Value) Value {
		prec := p.concreteInt(a[1], "NewDecWithPrec prec")
		if prec < 0 || prec > 18 {
			p.goPanicf("too much precision")
		}
		return VDec{T: Mul(tInt(a[0]), IntC(new(big.Int).Exp(bi(10), bi(int64(18-prec)), nil)))}
	}
	in[M+"LegacyNewDecFromIntWithPrec"] = func(p *Path, a []Value) Value {
		prec := p.concreteInt(a[1], "prec")
		x := p.nonNil(big_(a[0]), "NewDecFromIntWithPrec")
		return VDec{T: p.checkDecRange(Mul(x, IntC(new(big.Int).Exp(bi(10), bi(int64(18-prec)), nil))))}
	}
	in[M+"LegacyZeroDec"] = func(p *Path, a []Value) Value { return VDec{T: IntC64(0)} }
	in[M+"LegacyOneDec"] = func(p *Path, a []Value) Value { return VDec{T: IntC(ten18)} }
	in[M+"LegacyMustNewDecFromStr"] = func(p *Path, a []Value) Value {
		s, ok := tStr(a[0]).ConstStr()
		if !ok {
			panic(engErr("MustNewDecFromStr on symbolic string"))
		}
		r, ok := new(big.Rat).SetString(s)
		if !ok {
			p.goPanicf("invalid decimal string")
		}
		r.Mul(r, new(big.Rat).SetInt(ten18))
		if !r.IsInt() {
			p.goPanicf("too much precision")
		}
		return VDec{T: IntC(r.Num())}
	}
	in[M+"LegacyNewDecFromStr"] = func(p *Path, a []Value) Value {
		s, ok := tStr(a[0]).ConstStr()
		if !ok {
			// character-level decimal parsing is SDK code outside every claim: a symbolic string
			// parses iff decStrOK(s), to the 18-decimal raw value decRawOfStr(s) (uninterpreted,
			// so two parses of the same string agree), within the 315-bit range of LegacyDec
			st := tStr(a[0])
			if st.op == "str.from_int" && len(st.args) == 1 {
				// the canonical decimal rendering of a non-negative integer n parses to n
				n := st.args[0]
				if p.Decide(Ge(n, IntC64(0))) {
					raw := Mul(n, IntC(ten18))
					if !p.Decide(Lt(raw, IntC(decMaxB))) {
						return tuple(VDec{Nil: true}, p.eng.errVal("math/dec", "decimal out of range"))
					}
					return tuple(VDec{T: raw}, nilErr)
				}
			}
			if st.op == "str.++" && len(st.args) == 2 && st.args[1].op == "str.from_int" {
				// "-" followed by the canonical rendering of a non-negative integer n parses to -n
				if c, ok := st.args[0].ConstStr(); ok && c == "-" {
					n := st.args[1].args[0]
					if p.Decide(Ge(n, IntC64(0))) {
						raw := Neg(Mul(n, IntC(ten18)))
						if !p.Decide(Gt(raw, IntC(new(big.Int).Neg(decMaxB)))) {
							return tuple(VDec{Nil: true}, p.eng.errVal("math/dec", "decimal out of range"))
						}
						return tuple(VDec{T: raw}, nilErr)
					}
				}
			}
			if !p.Decide(App("decStrOK", SBool, st)) {
				return tuple(VDec{Nil: true}, p.eng.errVal("math/dec", "invalid decimal"))
			}
			raw := App("decRawOfStr", SInt, st)
			p.Assume(And(Lt(raw, IntC(decMaxB)), Gt(raw, IntC(new(big.Int).Neg(decMaxB)))))
			if st.op == "v" {
				for _, in := range p.inputs {
					if in.T == st {
						if p.decStr == nil {
							p.decStr = map[string]*Term{}
						}
						p.decStr[in.Name] = raw
					}
				}
			}
			return tuple(VDec{T: raw}, nilErr)
		}
		r, ok := new(big.Rat).SetString(s)
		if !ok {
			return tuple(VDec{Nil: true}, p.eng.errVal("math/dec", "invalid decimal"))
		}
		r.Mul(r, new(big.Rat).SetInt(ten18))
		if !r.IsInt() {
			return tuple(VDec{Nil: true}, p.eng.errVal("math/dec", "too much precision"))
		}
		return tuple(VDec{T: IntC(r.Num())}, nilErr)
	}
	dbin := func(name string, f func(p *Path, x, y *Term) *Term) {
		fn := func(p *Path, a []Value) Value {
			x := p.nonNilD(dec_(a[0]), name)
			y := p.nonNilD(dec_(a[1]), name)
			return VDec{T: p.checkDecRange(f(p, x, y))}
		}
		in[D+name] = fn
		in[D+name+"Mut"] = fn
	}
	dbin("Add", func(p *Path, x, y *Term) *Term { return Add(x, y) })
	dbin("Sub", func(p *Path, x, y *Term) *Term { return Sub(x, y) })
	dbin("Mul", func(p *Path, x, y *Term) *Term { return roundHalfEvenDiv(Mul(x, y), ten18) })
	dbin("MulTruncate", func(p *Path, x, y *Term) *Term { return GoQuo(Mul(x, y), IntC(ten18)) })
	dbin("Quo", func(p *Path, x, y *Term) *Term {
		if !p.Decide(Not(Eq(y, IntC64(0)))) {
			p.goPanicf("division by zero")
		}
		// mul precision twice, quo, chop with rounding
		return roundHalfEvenDiv(GoQuo(Mul(x, IntC(new(big.Int).Mul(ten18, ten18))), y), ten18)
	})
	quoTrunc := func(p *Path, a []Value) Value {
		dx, dy := dec_(a[0]), dec_(a[1])
		x := p.nonNilD(dx, "QuoTruncate")
		y := p.nonNilD(dy, "QuoTruncate")
		if !p.Decide(Not(Eq(y, IntC64(0)))) {
			p.goPanicf("division by zero")
		}
		if dx.IntPart != nil && dy.IntPart != nil && p.provablyNonNeg(dx.IntPart) && p.provablyNonNeg(dy.IntPart) {
			// floor(floor(A·10^18·10^36 / (B·10^18)) / 10^18) == floor(A·10^18 / B)   (A >= 0, B > 0)
			A, B := dx.IntPart, dy.IntPart
			r := Div(Mul(A, IntC(ten18)), B)
			return VDec{T: p.checkDecRange(r), QuoA: A, QuoB: B}
		}
		return VDec{T: p.checkDecRange(GoQuo(GoQuo(Mul(x, IntC(new(big.Int).Mul(ten18, ten18))), y), IntC(ten18)))}
	}
	in[D+"QuoTruncate"] = quoTrunc
	in[D+"QuoTruncateMut"] = quoTrunc
	in[D+"MulInt"] = func(p *Path, a []Value) Value {
		x := p.nonNilD(dec_(a[0]), "MulInt")
		y := p.nonNil(big_(a[1]), "MulInt")
		return VDec{T: p.checkDecRange(Mul(x, y))}
	}
	in[D+"MulInt64"] = func(p *Path, a []Value) Value {
		x := p.nonNilD(dec_(a[0]), "MulInt64")
		return VDec{T: p.checkDecRange(Mul(x, tInt(a[1])))}
	}
	in[D+"QuoInt"] = func(p *Path, a []Value) Value {
		x := p.nonNilD(dec_(a[0]), "QuoInt")
		y := p.nonNil(big_(a[1]), "QuoInt")
		if !p.Decide(Not(Eq(y, IntC64(0)))) {
			p.goPanicf("division by zero")
		}
		return VDec{T: GoQuo(x, y)}
	}
	in[D+"QuoInt64"] = func(p *Path, a []Value) Value {
		x := p.nonNilD(dec_(a[0]), "QuoInt64")
		y := tInt(a[1])
		if !p.Decide(Not(Eq(y, IntC64(0)))) {
			p.goPanicf("division by zero")
		}
		return VDec{T: GoQuo(x, y)}
	}
	in[D+"Neg"] = func(p *Path, a []Value) Value { return VDec{T: Neg(p.nonNilD(dec_(a[0]), "Neg"))} }
	in[D+"TruncateInt"] = func(p *Path, a []Value) Value {
		d := dec_(a[0])
		x := p.nonNilD(d, "TruncateInt")
		if d.IntPart != nil {
			return VBig{T: d.IntPart}
		}
		if d.QuoA != nil {
			// floor(floor(A·10^18/B)/10^18) == floor(A/B)
			return VBig{T: Div(d.QuoA, d.QuoB)}
		}
		return VBig{T: GoQuo(x, IntC(ten18))}
	}
	in[D+"TruncateInt64"] = func(p *Path, a []Value) Value {
		d := dec_(a[0])
		x := p.nonNilD(d, "TruncateInt64")
		q := GoQuo(x, IntC(ten18))
		if d.IntPart != nil {
			q = d.IntPart
		} else if d.QuoA != nil {
			q = Div(d.QuoA, d.QuoB)
		}
		ty := IntTy{64, true}
		if !p.Decide(And(Ge(q, IntC(ty.Min())), Le(q, IntC(ty.Max())))) {
			p.goPanicf("Int64() out of bound")
		}
		return VInt{clampRange(q, ty)}
	}
	in[D+"RoundInt"] = func(p *Path, a []Value) Value {
		x := p.nonNilD(dec_(a[0]), "RoundInt")
		return VBig{T: roundHalfEvenDiv(x, ten18)}
	}
	in[D+"RoundInt64"] = func(p *Path, a []Value) Value {
		x := p.nonNilD(dec_(a[0]), "RoundInt64")
		q := roundHalfEvenDiv(x, ten18)
		ty := IntTy{64, true}
		if !p.Decide(And(Ge(q, IntC(ty.Min())), Le(q, IntC(ty.Max())))) {
			p.goPanicf("Int64() out of bound")
		}
		return VInt{clampRange(q, ty)}
	}
	in[D+"TruncateDec"] = func(p *Path, a []Value) Value {
		x := p.nonNilD(dec_(a[0]), "TruncateDec")
		return VDec{T: Mul(GoQuo(x, IntC(ten18)), IntC(ten18))}
	}
	dcmp := func(name string, f func(x, y *Term) *Term) {
		in[D+name] = func(p *Path, a []Value) Value {
			x := p.nonNilD(dec_(a[0]), name)
			y := p.nonNilD(dec_(a[1]), name)
			return VBool{f(x, y)}
		}
	}
	dcmp("GT", Gt)
	dcmp("GTE", Ge)
	dcmp("LT", Lt)
	dcmp("LTE", Le)
	dcmp("Equal", Eq)
	in[D+"IsNil"] = func(p *Path, a []Value) Value { return VBool{BoolC(dec_(a[0]).Nil)} }
	in[D+"IsZero"] = func(p *Path, a []Value) Value { return VBool{Eq(p.nonNilD(dec_(a[0]), "IsZero"), IntC64(0))} }
	in[D+"IsNegative"] = func(p *Path, a []Value) Value { return VBool{Lt(p.nonNilD(dec_(a[0]), "IsNegative"), IntC64(0))} }
	in[D+"IsPositive"] = func(p *Path, a []Value) Value { return VBool{Gt(p.nonNilD(dec_(a[0]), "IsPositive"), IntC64(0))} }
	in[D+"IsInteger"] = func(p *Path, a []Value) Value {
		return VBool{Eq(Mod(p.nonNilD(dec_(a[0]), "IsInteger"), IntC(ten18)), IntC64(0))}
	}
	in[D+"String"] = func(p *Path, a []Value) Value { return VStr{p.opaqueString()} }
	in[D+"BigInt"] = func(p *Path, a []Value) Value {
		if dec_(a[0]).Nil {
			return VPtr{Nil: true}
		}
		return VPtr{Obj: p.newObj(VOpaque{"big.Int"}, "bigint")}
	}
}

// provablyNonNeg: t >= 0 follows from the term's interval or from the path condition.
func (p *Path) provablyNonNeg(t *Term) bool {
	if t.lo != nil && t.lo.Sign() >= 0 {
		return true
	}
	if p.tolerant || p.sess == nil {
		return false
	}
	p.sess.where = "nonneg-lemma " + p.where()
	res, _ := p.sess.Check(Lt(t, IntC64(0)), nil)
	return res == Unsat
}

func orB(x, def *big.Int) *big.Int {
	if x == nil {
		return def
	}
	return x
}

// clampRange returns t annotated with the (already proven on this path) range of ty.
func clampRange(x *Term, ty IntTy) *Term {
	if x.op == "c" {
		return x
	}
	return &Term{op: x.op, sort: x.sort, args: x.args, iv: x.iv, name: x.name, size: x.size,
		lo: maxB(ty.Min(), orB(x.lo, ty.Min())), hi: minB(ty.Max(), orB(x.hi, ty.Max())), byteSrc: x.byteSrc, byteIdx: x.byteIdx}
}

// intToStr: decimal rendering of an integer as an SMT string term ("-" prefix for negatives).
func intToStr(t *Term) *Term {
	if c, ok := t.ConstInt(); ok {
		return StrC(c.String())
	}
	pos := mk("str.from_int", SStr, t)
	if t.lo != nil && t.lo.Sign() >= 0 {
		return pos
	}
	return Ite(Lt(t, IntC64(0)), StrConcat(StrC("-"), mk("str.from_int", SStr, Neg(t))), pos)
}

// padLeftZeros: %0Nd of a value known (by the caller's check) to lie in [0, 10^N).
func padLeftZeros(t *Term, n int) *Term {
	if c, ok := t.ConstInt(); ok && c.Sign() >= 0 {
		s := c.String()
		for len(s) < n {
			s = "0" + s
		}
		return StrC(s)
	}
	p10 := new(big.Int).Exp(bi(10), bi(int64(n)), nil)
	// the last n digits of 10^n + t
	return mk("str.substr", SStr, mk("str.from_int", SStr, Add(IntC(p10), t)), IntC64(1), IntC64(int64(n)))
}

// intToStrDecided: like intToStr but settles the sign with the path condition first, so that the
// result is a plain str.from_int term whenever the value is known to be non-negative.
func (p *Path) intToStrDecided(t *Term) *Term {
	if _, ok := t.ConstInt(); ok {
		return intToStr(t)
	}
	if p.Decide(Ge(t, IntC64(0))) {
		return mk("str.from_int", SStr, t)
	}
	return StrConcat(StrC("-"), mk("str.from_int", SStr, Neg(t)))
}

// ---------- structural string equality (a sufficient condition, used as an extra disjunct) ----------

func flattenConcat(t *Term, out *[]*Term) {
	if t.op == "str.++" {
		for _, a := range t.args {
			flattenConcat(a, out)
		}
		return
	}
	if s, ok := t.ConstStr(); ok && s == "" {
		return
	}
	*out = append(*out, t)
}

// strEqStructural returns a formula that IMPLIES a = b, obtained by matching the two strings part
// by part (decimal renderings of non-negative integers are equal iff the integers are), or nil.
func strEqStructural(a, b *Term) *Term {
	var pa, pb []*Term
	flattenConcat(a, &pa)
	flattenConcat(b, &pb)
	// merge adjacent constants
	merge := func(ps []*Term) []*Term {
		var out []*Term
		for _, p := range ps {
			if c, ok := p.ConstStr(); ok && len(out) > 0 {
				if d, ok2 := out[len(out)-1].ConstStr(); ok2 {
					out[len(out)-1] = StrC(d + c)
					continue
				}
			}
			out = append(out, p)
		}
		return out
	}
	pa, pb = merge(pa), merge(pb)
	if len(pa) != len(pb) || len(pa) == 0 {
		return nil
	}
	var cs []*Term
	for i := range pa {
		x, y := pa[i], pb[i]
		cx, okx := x.ConstStr()
		cy, oky := y.ConstStr()
		switch {
		case okx && oky:
			if cx != cy {
				return nil
			}
		case x.op == "str.from_int" && y.op == "str.from_int":
			cs = append(cs, Ge(x.args[0], IntC64(0)), Ge(y.args[0], IntC64(0)), Eq(x.args[0], y.args[0]))
		case x.op == "str.substr" && y.op == "str.substr" && x.args[0].op == "str.from_int" && y.args[0].op == "str.from_int" &&
			sameTerm(x.args[1], y.args[1]) && sameTerm(x.args[2], y.args[2]):
			cs = append(cs, Eq(x.args[0].args[0], y.args[0].args[0]))
		default:
			cs = append(cs, Eq(x, y))
		}
	}
	return And(cs...)
}
