package main

// SSA interpreter over symbolic values. Each path is executed from scratch following a decision
// trail (decision replay), so all interpreter state is ordinary mutable Go data.

import (
	"fmt"
	"go/constant"
	"go/token"
	"go/types"
	"math/big"
	"strings"

	"golang.org/x/tools/go/ssa"
)

type goPanic struct {
	Val  Value
	Site string
	Msg  string
}

type pathEnd struct{ reason string }

type decision struct {
	Kind   byte // 'b' bool decision, 'c' concrete choice
	Val    int
	Forced bool
}

type frame struct {
	fn     *ssa.Function
	env    map[ssa.Value]Value
	defers []func()
	back   map[*ssa.BasicBlock]int
}

type inputRec struct {
	Name string
	Kind string
	T    *Term
}

type Path struct {
	eng      *Engine
	sess     *Session
	trail    []decision
	pos      int
	hr       *HarnessRun
	globals  map[*ssa.Global]*Obj
	nobj     int
	steps    int
	nfresh   int
	inputs   []inputRec
	choices  []int
	depth    int
	tolerant bool
	known    map[string]*Term
	lastPanic string
	envVars  []*Term
	tier     string
	lockedInit bool
	tolPkg   *ssa.Package
	allocs   []*Obj
	pcLits   int
	mapOrder bool
	trace    []string // access trace (store ops etc.)
	curFn    []*ssa.Function
	gwrites  []string
	decStr   map[string]*Term // rt string input name -> its parsed 18-decimal raw value term
	crashSite string          // innermost function at the time of the last throw (diagnostics)
	stress   *Term            // see unmodelled
	printed  *Term            // what the code under test printed through client.Context.PrintString
	pending  []decision // alternatives discovered on this path (pushed by explorer)
	alts     [][]decision
}

func (p *Path) newObj(v Value, label string) *Obj {
	p.nobj++
	o := &Obj{V: v, id: p.nobj, label: label}
	if p.tolerant {
		p.allocs = append(p.allocs, o)
	}
	return o
}

func (p *Path) fresh(prefix string, s Sort) *Term {
	p.nfresh++
	return Var(fmt.Sprintf("%s!%d", prefix, p.nfresh), s)
}

func (p *Path) freshInt(prefix string, lo, hi *big.Int) *Term {
	p.nfresh++
	return IntVar(fmt.Sprintf("%s!%d", prefix, p.nfresh), lo, hi)
}

// Decide resolves a symbolic boolean at a control point.
func (p *Path) Decide(c *Term) bool {
	if v, ok := c.ConstBool(); ok {
		return v
	}
	if p.tolerant {
		panic(engErr("symbolic decision during package init"))
	}
	if p.pos < len(p.trail) {
		d := p.trail[p.pos]
		p.pos++
		if d.Kind != 'b' {
			panic(engErr("trail mismatch: expected bool decision"))
		}
		if !d.Forced {
			if d.Val == 1 {
				p.sess.Assert(c)
			} else {
				p.sess.Assert(Not(c))
			}
		}
		return d.Val == 1
	}
	// the same condition (or its negation) was already decided on this path: no solver call
	if p.sess.Implied(c) {
		p.trail = append(p.trail, decision{'b', 1, true})
		p.pos++
		return true
	}
	if p.sess.Implied(Not(c)) {
		p.trail = append(p.trail, decision{'b', 0, true})
		p.pos++
		return false
	}
	p.sess.where = p.where()
	rt := p.sess.CheckBranch(c)
	var rf SatResult
	if rt == Unsat {
		// pc ∧ c unsat: only the false side can be feasible
		rf = p.sess.CheckBranch(Not(c))
		if rf == Unsat {
			panic(pathEnd{"infeasible"})
		}
		p.trail = append(p.trail, decision{'b', 0, true})
		p.pos++
		return false
	}
	rf = p.sess.CheckBranch(Not(c))
	if rf == Unsat {
		p.trail = append(p.trail, decision{'b', 1, true})
		p.pos++
		return true
	}
	if rt == Unknown || rf == Unknown {
		p.hr.noteUnknownBranch(p.where())
	}
	// both feasible (or unknown): take true, schedule false
	alt := make([]decision, len(p.trail)+1)
	copy(alt, p.trail)
	alt[len(p.trail)] = decision{'b', 0, false}
	p.alts = append(p.alts, alt)
	p.trail = append(p.trail, decision{'b', 1, false})
	p.pos++
	p.sess.Assert(c)
	return true
}

// Choose makes a concrete n-way choice (0..n-1), exploring all.
func (p *Path) Choose(n int) int {
	if n <= 1 {
		return 0
	}
	if p.pos < len(p.trail) {
		d := p.trail[p.pos]
		p.pos++
		if d.Kind != 'c' {
			panic(engErr("trail mismatch: expected choice"))
		}
		p.choices = append(p.choices, d.Val)
		return d.Val
	}
	for k := n - 1; k >= 1; k-- {
		alt := make([]decision, len(p.trail)+1)
		copy(alt, p.trail)
		alt[len(p.trail)] = decision{'c', k, false}
		p.alts = append(p.alts, alt)
	}
	p.trail = append(p.trail, decision{'c', 0, false})
	p.pos++
	p.choices = append(p.choices, 0)
	return 0
}

func (p *Path) Assume(c *Term) {
	if v, ok := c.ConstBool(); ok {
		if !v {
			panic(pathEnd{"assume false"})
		}
		return
	}
	p.sess.Assert(c)
}

func (p *Path) where() string {
	if len(p.curFn) == 0 {
		return "?"
	}
	return p.curFn[len(p.curFn)-1].String()
}

// codecConfusion: the code under test read a stored value with a different decoder than the one
// that wrote it (a proto-marshalled value read as a raw integer, raw bytes or another message type
// fed to Unmarshal). The byte-level outcome is outside the encoding (VBlob is opaque), so the path
// ends here with a candidate violation whose verdict is left to the native replay.
type codecConfusion struct {
	Site, Msg string
}

// unmodelled: the code under test left the fragment the encoding covers in a way that is itself
// suspicious for the property (binary floating point on a path that must be exact). The path ends
// with a candidate violation; Stress (optional) steers the model towards inputs on which the
// unmodelled code is most likely to differ; the verdict is left to the native replay.
type unmodelled struct {
	Label, Site, Msg string
	Stress           *Term
}

func (p *Path) goPanicf(format string, a ...interface{}) {
	msg := fmt.Sprintf(format, a...)
	panic(goPanic{Val: VIface{Ty: types.Typ[types.String], Val: VStr{StrC(msg)}}, Site: p.where(), Msg: msg})
}

// ---------- globals ----------

func (p *Path) globalObj(g *ssa.Global) *Obj {
	if o, ok := p.globals[g]; ok {
		return o
	}
	var v Value
	if p.tolerant && g.Pkg == p.tolPkg {
		if iv, ok := p.eng.peekGlobalInit(g); ok {
			v = iv
		} else {
			v = zeroValue(g.Type().(*types.Pointer).Elem())
		}
	} else if p.lockedInit {
		v = p.eng.initialGlobalLocked(g)
	} else {
		v = p.eng.initialGlobal(g)
	}
	o := &Obj{V: v, label: g.String(), global: true}
	p.globals[g] = o
	return o
}

// ---------- function calls ----------

func (p *Path) callFunction(fn *ssa.Function, args []Value, bindings []Value) (ret Value) {
	name := fn.String()
	if in, ok := p.eng.intrinsics[name]; ok {
		return in(p, args)
	}
	if fn.Origin() != nil {
		if in, ok := p.eng.intrinsics[fn.Origin().String()]; ok {
			return in(p, args)
		}
	}
	if rd, ok := p.eng.redirects[name]; ok {
		fn = rd
	}
	// generated protobuf varint-size helpers `sovXxx(x uint64) int` (= (bits.Len64(x|1)+6)/7):
	// exact for constants, otherwise an arbitrary value in 1..10 (sizes are only ever compared
	// with zero by the code under test)
	if strings.HasPrefix(fn.Name(), "sov") && fn.Signature.Params().Len() == 1 && fn.Signature.Results().Len() == 1 && len(args) == 1 {
		if xi, ok := args[0].(VInt); ok {
			if c, isC := xi.T.ConstInt(); isC {
				n := (new(big.Int).Or(c, bi(1)).BitLen() + 6) / 7
				return VInt{IntC64(int64(n))}
			}
			return VInt{p.freshInt("sov", bi(1), bi(10))}
		}
	}
	// SSA bodies of dependency packages are built lazily; never look at fn.Blocks before the
	// owning package is known to be completely built (another worker may be building it)
	p.eng.ensureBuilt(fn)
	if fn.Blocks == nil {
		if fn.Blocks == nil {
			if p.tolerant {
				return VOpaque{"extern " + name}
			}
			panic(engErr("no body and no intrinsic for %s (called from %s)", name, p.where()))
		}
	}
	if p.tolerant && !p.eng.tolerantMayRun(fn, p.tolPkg) {
		return opaqueResult(fn.Signature)
	}
	if p.eng.denied(fn) {
		if p.tolerant {
			return opaqueResult(fn.Signature)
		}
		panic(engErr("call into unsupported package: %s (from %s)", name, p.where()))
	}
	p.depth++
	if p.depth > 200 {
		panic(engErr("call depth exceeded at %s", name))
	}
	p.curFn = append(p.curFn, fn)
	p.hr.noteFunc(fn)
	fr := &frame{fn: fn, env: make(map[ssa.Value]Value, 32)}
	for i, prm := range fn.Params {
		if i < len(args) {
			fr.env[prm] = args[i]
		} else {
			panic(engErr("arity mismatch calling %s: %d args for %d params", name, len(args), len(fn.Params)))
		}
	}
	for i, fv := range fn.FreeVars {
		fr.env[fv] = bindings[i]
	}
	defer func() {
		p.depth--
		p.curFn = p.curFn[:len(p.curFn)-1]
		if r := recover(); r != nil {
			if p.crashSite == "" {
				p.crashSite = name // innermost function on the stack when something was thrown
			}
			if gp, ok := r.(goPanic); ok && len(fr.defers) > 0 {
				// run deferred calls while panicking
				ds := fr.defers
				fr.defers = nil
				for i := len(ds) - 1; i >= 0; i-- {
					ds[i]()
				}
				panic(gp)
			}
			panic(r)
		}
	}()
	return p.run(fr)
}

func opaqueResult(sig *types.Signature) Value {
	n := sig.Results().Len()
	if n == 0 {
		return nil
	}
	if n == 1 {
		return VOpaque{"tolerant"}
	}
	es := make([]Value, n)
	for i := range es {
		es[i] = VOpaque{"tolerant"}
	}
	return VTuple{E: es}
}

const maxBackEdges = 300
const maxSteps = 3000000

func (p *Path) run(fr *frame) Value {
	fn := fr.fn
	block := fn.Blocks[0]
	var prev *ssa.BasicBlock
	for {
		// phis first (simultaneous)
		nphi := 0
		for _, ins := range block.Instrs {
			if _, ok := ins.(*ssa.Phi); ok {
				nphi++
			} else {
				break
			}
		}
		if nphi > 0 {
			idx := -1
			for i, pb := range block.Preds {
				if pb == prev {
					idx = i
					break
				}
			}
			if idx < 0 {
				panic(engErr("phi: predecessor not found in %s", fn))
			}
			vals := make([]Value, nphi)
			for i := 0; i < nphi; i++ {
				phi := block.Instrs[i].(*ssa.Phi)
				vals[i] = p.operand(fr, phi.Edges[idx])
			}
			for i := 0; i < nphi; i++ {
				fr.env[block.Instrs[i].(*ssa.Phi)] = vals[i]
			}
		}
		var next *ssa.BasicBlock
		for _, ins := range block.Instrs[nphi:] {
			p.steps++
			if p.steps > maxSteps {
				panic(boundErr{"step budget exceeded in " + fn.String()})
			}
			switch ins := ins.(type) {
			case *ssa.If:
				c := p.operand(fr, ins.Cond).(VBool)
				if p.Decide(c.T) {
					next = block.Succs[0]
				} else {
					next = block.Succs[1]
				}
			case *ssa.Jump:
				next = block.Succs[0]
			case *ssa.Return:
				switch len(ins.Results) {
				case 0:
					return nil
				case 1:
					return p.operand(fr, ins.Results[0])
				default:
					es := make([]Value, len(ins.Results))
					for i, r := range ins.Results {
						es[i] = p.operand(fr, r)
					}
					return VTuple{E: es}
				}
			case *ssa.Panic:
				v := p.operand(fr, ins.X)
				panic(goPanic{Val: v, Site: fn.String(), Msg: p.panicText(v)})
			case *ssa.Store:
				addr := p.operand(fr, ins.Addr)
				val := p.operand(fr, ins.Val)
				p.storeTo(addr, val, ins)
			case *ssa.MapUpdate:
				p.mapUpdate(p.operand(fr, ins.Map), p.operand(fr, ins.Key), p.operand(fr, ins.Value))
			case *ssa.Defer:
				p.doDefer(fr, ins)
			case *ssa.RunDefers:
				ds := fr.defers
				fr.defers = nil
				for i := len(ds) - 1; i >= 0; i-- {
					ds[i]()
				}
			case *ssa.DebugRef:
			case *ssa.Go:
				p.hr.noteNondet("go statement in " + fn.String())
				panic(engErr("go statement in %s", fn))
			case *ssa.Send, *ssa.Select:
				panic(engErr("channel operation in %s", fn))
			case ssa.Value:
				if p.tolerant {
					fr.env[ins] = p.evalTolerant(fr, ins)
				} else {
					fr.env[ins] = p.eval(fr, ins)
				}
			default:
				panic(engErr("unsupported instruction %T in %s", ins, fn))
			}
		}
		if next == nil {
			panic(engErr("block without terminator in %s", fn))
		}
		if next.Index <= block.Index {
			if fr.back == nil {
				fr.back = map[*ssa.BasicBlock]int{}
			}
			fr.back[next]++
			if fr.back[next] > p.hr.loopBound() {
				panic(boundErr{fmt.Sprintf("loop bound %d exceeded in %s", p.hr.loopBound(), fn)})
			}
		}
		prev, block = block, next
	}
}

type boundErr struct{ msg string }

func (p *Path) panicText(v Value) string {
	switch x := v.(type) {
	case VIface:
		switch y := x.Val.(type) {
		case VStr:
			if s, ok := y.T.ConstStr(); ok {
				return s
			}
			return "<symbolic string>"
		case VErr:
			return "error: " + y.Root + ": " + y.Msg
		case VPtr:
			if !y.Nil {
				if ev, ok := y.load().(*VStruct); ok && len(ev.F) > 0 {
					_ = ev
				}
			}
		}
		if x.Ty != nil {
			return "panic value of type " + x.Ty.String()
		}
	}
	return fmt.Sprintf("%T", v)
}

func (p *Path) doDefer(fr *frame, ins *ssa.Defer) {
	// evaluate function and args now, run later
	call := ins.Call
	var fnv Value
	var args []Value
	if call.IsInvoke() {
		recv := p.operand(fr, call.Value)
		for _, a := range call.Args {
			args = append(args, p.operand(fr, a))
		}
		m := call.Method
		fr.defers = append(fr.defers, func() { p.invoke(recv, m, args, call.Value.Type()) })
		return
	}
	for _, a := range call.Args {
		args = append(args, p.operand(fr, a))
	}
	switch c := call.Value.(type) {
	case *ssa.Function:
		fr.defers = append(fr.defers, func() { p.callFunction(c, args, nil) })
	case *ssa.Builtin:
		fr.defers = append(fr.defers, func() { p.builtin(c, args, nil) })
	default:
		fnv = p.operand(fr, call.Value)
		fr.defers = append(fr.defers, func() { p.callValue(fnv, args) })
	}
}

func (p *Path) callValue(fnv Value, args []Value) Value {
	f, ok := fnv.(VFunc)
	if !ok {
		if _, isOp := fnv.(VOpaque); isOp && p.tolerant {
			return VOpaque{"call of opaque"}
		}
		panic(engErr("call of non-function %T in %s", fnv, p.where()))
	}
	if f.Nil {
		p.goPanicf("call of nil function")
	}
	if f.Builtin != "" {
		in, ok := p.eng.intrinsics[f.Builtin]
		if !ok {
			panic(engErr("no intrinsic %s", f.Builtin))
		}
		return in(p, args)
	}
	if f.Method != nil {
		return p.invoke(f.Recv, f.Method, args, nil)
	}
	return p.callFunction(f.Fn, args, f.Bindings)
}

func (p *Path) operand(fr *frame, v ssa.Value) Value {
	switch x := v.(type) {
	case *ssa.Const:
		return p.constValue(x)
	case *ssa.Global:
		return VPtr{Obj: p.globalObj(x)}
	case *ssa.Function:
		return VFunc{Fn: x}
	case *ssa.Builtin:
		return VFunc{Builtin: "builtin:" + x.Name()}
	}
	val, ok := fr.env[v]
	if !ok {
		panic(engErr("operand %s (%T) not evaluated in %s", v.Name(), v, fr.fn))
	}
	return val
}

func (p *Path) constValue(c *ssa.Const) Value {
	t := c.Type()
	if c.Value == nil {
		return zeroValue(t)
	}
	if tp, ok := t.(*types.TypeParam); ok {
		_ = tp
		panic(engErr("constant of type parameter"))
	}
	switch u := t.Underlying().(type) {
	case *types.Basic:
		switch {
		case u.Info()&types.IsBoolean != 0:
			return VBool{BoolC(constant.BoolVal(c.Value))}
		case u.Info()&types.IsInteger != 0:
			iv := constant.ToInt(c.Value)
			n, ok := new(big.Int).SetString(iv.ExactString(), 10)
			if !ok {
				panic(engErr("bad int const %v", c.Value))
			}
			return VInt{IntC(n)}
		case u.Info()&types.IsString != 0:
			return VStr{StrC(constant.StringVal(c.Value))}
		case u.Info()&types.IsFloat != 0:
			f, _ := constant.Float64Val(c.Value)
			return VFloat{T: fpConst(f)}
		}
	}
	panic(engErr("unsupported constant %v of type %v", c.Value, t))
}

func (p *Path) storeTo(addr Value, val Value, ins ssa.Instruction) {
	ptr, ok := addr.(VPtr)
	if !ok {
		if _, isOp := addr.(VOpaque); isOp && p.tolerant {
			return
		}
		panic(engErr("store to non-pointer %T", addr))
	}
	if ptr.Nil {
		p.goPanicf("nil pointer dereference (store)")
	}
	if p.tolerant {
		if ptr.Obj.frozen {
			return
		}
	} else if ptr.Obj.global {
		// state kept outside the context's stores: invisible to commit hashes and lost on restart
		p.gwrites = append(p.gwrites, ptr.Obj.label+" (in "+p.where()+")")
	}
	ptr.store(val)
}

// ---------- instruction evaluation ----------

// evalTolerant: during package-init evaluation anything the engine cannot interpret
// becomes an opaque value instead of aborting.
func (p *Path) evalTolerant(fr *frame, ins ssa.Value) (res Value) {
	depth, nfn := p.depth, len(p.curFn)
	defer func() {
		if r := recover(); r != nil {
			switch r.(type) {
			case engineErr, goPanic:
				p.depth, p.curFn = depth, p.curFn[:nfn]
				if tup, ok := ins.Type().(*types.Tuple); ok {
					es := make([]Value, tup.Len())
					for i := range es {
						es[i] = VOpaque{"init-failed"}
					}
					res = VTuple{E: es}
				} else {
					res = VOpaque{"init-failed"}
				}
			default:
				panic(r)
			}
		}
	}()
	return p.eval(fr, ins)
}

func (p *Path) eval(fr *frame, ins ssa.Value) Value {
	switch ins := ins.(type) {
	case *ssa.Alloc:
		et := ins.Type().(*types.Pointer).Elem()
		return VPtr{Obj: p.newObj(zeroValue(et), ins.Comment)}
	case *ssa.BinOp:
		return p.binop(ins.Op, p.operand(fr, ins.X), p.operand(fr, ins.Y), ins.X.Type(), ins.Y.Type(), ins.Type())
	case *ssa.UnOp:
		return p.unop(fr, ins)
	case *ssa.Call:
		return p.doCall(fr, &ins.Call)
	case *ssa.ChangeInterface:
		return p.operand(fr, ins.X)
	case *ssa.ChangeType:
		return p.operand(fr, ins.X)
	case *ssa.Convert:
		return p.convert(p.operand(fr, ins.X), ins.X.Type(), ins.Type())
	case *ssa.MultiConvert:
		return p.convert(p.operand(fr, ins.X), ins.X.Type(), ins.Type())
	case *ssa.Extract:
		t := p.operand(fr, ins.Tuple)
		tt, ok := t.(VTuple)
		if !ok {
			if _, isOp := t.(VOpaque); isOp {
				return t
			}
			panic(engErr("extract from %T", t))
		}
		return tt.E[ins.Index]
	case *ssa.Field:
		x := p.operand(fr, ins.X)
		s, ok := x.(*VStruct)
		if !ok {
			panic(engErr("field %d of %T (%v) in %s", ins.Field, x, ins.X.Type(), fr.fn))
		}
		return s.F[ins.Field]
	case *ssa.FieldAddr:
		x := p.operand(fr, ins.X)
		ptr, ok := x.(VPtr)
		if !ok {
			if _, isOp := x.(VOpaque); isOp && p.tolerant {
				return x
			}
			panic(engErr("fieldaddr of %T in %s", x, fr.fn))
		}
		if ptr.Nil {
			p.goPanicf("nil pointer dereference (field)")
		}
		if _, ok := ptr.load().(*VStruct); !ok {
			panic(engErr("fieldaddr into %T (%v) in %s", ptr.load(), ins.X.Type(), fr.fn))
		}
		return VPtr{Obj: ptr.Obj, Path: appendPath(ptr.Path, ins.Field)}
	case *ssa.Index:
		return p.index(p.operand(fr, ins.X), p.operand(fr, ins.Index))
	case *ssa.IndexAddr:
		return p.indexAddr(p.operand(fr, ins.X), p.operand(fr, ins.Index))
	case *ssa.Lookup:
		return p.lookup(p.operand(fr, ins.X), p.operand(fr, ins.Index), ins)
	case *ssa.MakeClosure:
		bs := make([]Value, len(ins.Bindings))
		for i, b := range ins.Bindings {
			bs[i] = p.operand(fr, b)
		}
		return VFunc{Fn: ins.Fn.(*ssa.Function), Bindings: bs}
	case *ssa.MakeInterface:
		return VIface{Ty: ins.X.Type(), Val: p.operand(fr, ins.X)}
	case *ssa.MakeMap:
		return VMap{Obj: p.newObj(&VMapData{}, "map")}
	case *ssa.MakeSlice:
		n := p.concreteInt(p.operand(fr, ins.Len), "make len")
		c := p.concreteInt(p.operand(fr, ins.Cap), "make cap")
		et := ins.Type().Underlying().(*types.Slice).Elem()
		es := make([]Value, c)
		z := zeroValue(et)
		for i := range es {
			es[i] = z
		}
		return VSlice{Obj: p.newObj(&VArray{E: es}, "makeslice"), Off: 0, Len: n, Cap: c}
	case *ssa.Next:
		return p.next(p.operand(fr, ins.Iter), ins)
	case *ssa.Range:
		return p.rangeOf(p.operand(fr, ins.X))
	case *ssa.Slice:
		return p.slice(fr, ins)
	case *ssa.TypeAssert:
		return p.typeAssert(p.operand(fr, ins.X), ins)
	case *ssa.SliceToArrayPointer:
		x := p.operand(fr, ins.X).(VSlice)
		return VPtr{Obj: x.Obj, Path: nil} // only whole-array views supported
	}
	panic(engErr("unsupported value instruction %T in %s", ins, fr.fn))
}

func (p *Path) concreteInt(v Value, what string) int {
	iv, ok := v.(VInt)
	if !ok {
		panic(engErr("%s: not an int: %T", what, v))
	}
	c, ok := iv.T.ConstInt()
	if !ok {
		panic(engErr("%s: symbolic value %s not supported (in %s)", what, termStr(iv.T), p.where()))
	}
	return int(c.Int64())
}

func (p *Path) unop(fr *frame, ins *ssa.UnOp) Value {
	x := p.operand(fr, ins.X)
	switch ins.Op {
	case token.MUL: // load
		ptr, ok := x.(VPtr)
		if !ok {
			if _, isOp := x.(VOpaque); isOp {
				return x
			}
			panic(engErr("load from %T in %s", x, fr.fn))
		}
		if ptr.Nil {
			p.goPanicf("nil pointer dereference (load)")
		}
		return ptr.load()
	case token.NOT:
		return VBool{Not(x.(VBool).T)}
	case token.SUB:
		switch v := x.(type) {
		case VInt:
			ty, _ := intTyOf(ins.Type())
			return VInt{ty.Wrap(Neg(v.T))}
		case VFloat:
			return VFloat{T: mk("fp.neg", SFP, v.T)}
		}
	case token.XOR:
		if v, ok := x.(VInt); ok {
			ty, _ := intTyOf(ins.Type())
			if ty.Signed {
				return VInt{Sub(Neg(v.T), IntC64(1))}
			}
			return VInt{Sub(IntC(ty.Max()), v.T)}
		}
	}
	panic(engErr("unsupported unop %v on %T", ins.Op, x))
}

func (p *Path) index(x, idx Value) Value {
	i := idx.(VInt)
	switch a := x.(type) {
	case *VArray:
		return p.selectElem(a.E, i.T)
	case VStr:
		s, ok := a.T.ConstStr()
		if !ok {
			panic(engErr("index of symbolic string"))
		}
		k := p.concreteInt(idx, "string index")
		if k < 0 || k >= len(s) {
			p.goPanicf("index out of range [%d] with length %d", k, len(s))
		}
		return VInt{IntC64(int64(s[k]))}
	}
	panic(engErr("index of %T", x))
}

// selectElem reads es[i] for a possibly symbolic index (bounds panic modelled).
func (p *Path) selectElem(es []Value, i *Term) Value {
	if c, ok := i.ConstInt(); ok {
		k := int(c.Int64())
		if !c.IsInt64() || k < 0 || k >= len(es) {
			p.goPanicf("index out of range [%s] with length %d", c.String(), len(es))
		}
		return es[k]
	}
	inb := And(Ge(i, IntC64(0)), Lt(i, IntC64(int64(len(es)))))
	if !p.Decide(inb) {
		p.goPanicf("index out of range [symbolic] with length %d", len(es))
	}
	// fork over the index value
	for k := 0; k < len(es); k++ {
		if k == len(es)-1 || p.Decide(Eq(i, IntC64(int64(k)))) {
			return es[k]
		}
	}
	panic(engErr("selectElem: unreachable"))
}

func (p *Path) indexAddr(x, idx Value) Value {
	i := idx.(VInt)
	switch a := x.(type) {
	case VSlice:
		k := p.boundedIndex(i.T, a.Len)
		return VPtr{Obj: a.Obj, Path: []int{a.Off + k}}
	case VPtr: // pointer to array
		if a.Nil {
			p.goPanicf("nil pointer dereference (index)")
		}
		arr, ok := a.load().(*VArray)
		if !ok {
			panic(engErr("indexaddr through pointer to %T", a.load()))
		}
		k := p.boundedIndex(i.T, len(arr.E))
		return VPtr{Obj: a.Obj, Path: appendPath(a.Path, k)}
	case VBlob:
		panic(engErr("indexing into marshalled blob"))
	}
	panic(engErr("indexaddr of %T", x))
}

func (p *Path) boundedIndex(i *Term, n int) int {
	if c, ok := i.ConstInt(); ok {
		if !c.IsInt64() || c.Int64() < 0 || c.Int64() >= int64(n) {
			p.goPanicf("index out of range [%s] with length %d", c.String(), n)
		}
		return int(c.Int64())
	}
	inb := And(Ge(i, IntC64(0)), Lt(i, IntC64(int64(n))))
	if !p.Decide(inb) {
		p.goPanicf("index out of range [symbolic] with length %d", n)
	}
	for k := 0; k < n; k++ {
		if k == n-1 || p.Decide(Eq(i, IntC64(int64(k)))) {
			return k
		}
	}
	panic(engErr("boundedIndex unreachable"))
}

func (p *Path) slice(fr *frame, ins *ssa.Slice) Value {
	x := p.operand(fr, ins.X)
	get := func(v ssa.Value, def int) int {
		if v == nil {
			return def
		}
		return p.concretize(p.operand(fr, v).(VInt).T, "slice bound")
	}
	switch a := x.(type) {
	case VSlice:
		lo := get(ins.Low, 0)
		hi := get(ins.High, a.Len)
		mx := get(ins.Max, a.Cap)
		if a.Nil {
			if lo != 0 || hi != 0 {
				p.goPanicf("slice bounds out of range on nil slice")
			}
			return a
		}
		if lo < 0 || hi < lo || hi > a.Cap || mx > a.Cap || hi > mx {
			p.goPanicf("slice bounds out of range [%d:%d] with capacity %d", lo, hi, a.Cap)
		}
		return VSlice{Obj: a.Obj, Off: a.Off + lo, Len: hi - lo, Cap: mx - lo}
	case VStr:
		s, ok := a.T.ConstStr()
		if !ok {
			panic(engErr("slice of symbolic string"))
		}
		lo := get(ins.Low, 0)
		hi := get(ins.High, len(s))
		if lo < 0 || hi < lo || hi > len(s) {
			p.goPanicf("slice bounds out of range [%d:%d] with length %d", lo, hi, len(s))
		}
		return VStr{StrC(s[lo:hi])}
	case VPtr: // pointer to array
		if a.Nil {
			p.goPanicf("nil pointer dereference (slice)")
		}
		arr, ok := a.load().(*VArray)
		if !ok {
			panic(engErr("slice of pointer to %T", a.load()))
		}
		if len(a.Path) != 0 {
			panic(engErr("slice of nested array not supported"))
		}
		lo := get(ins.Low, 0)
		hi := get(ins.High, len(arr.E))
		mx := get(ins.Max, len(arr.E))
		if lo < 0 || hi < lo || hi > len(arr.E) || mx > len(arr.E) {
			p.goPanicf("slice bounds out of range [%d:%d] with capacity %d", lo, hi, len(arr.E))
		}
		return VSlice{Obj: a.Obj, Off: lo, Len: hi - lo, Cap: mx - lo}
	case VBlob:
		if ins.Low == nil && ins.High == nil {
			return a
		}
		panic(engErr("slicing a marshalled blob"))
	}
	panic(engErr("slice of %T", x))
}

// concretize: a symbolic int that must be concrete for the engine (slice bounds, lengths):
// fork over its feasible values when it is bounded by a small interval.
func (p *Path) concretize(t *Term, what string) int {
	if c, ok := t.ConstInt(); ok {
		return int(c.Int64())
	}
	if t.lo != nil && t.hi != nil {
		w := new(big.Int).Sub(t.hi, t.lo)
		if w.IsInt64() && w.Int64() <= 512 {
			lo := t.lo.Int64()
			for k := lo; k <= t.hi.Int64(); k++ {
				if k == t.hi.Int64() || p.Decide(Eq(t, IntC64(k))) {
					if k == t.hi.Int64() {
						p.Assume(Eq(t, IntC64(k)))
					}
					return int(k)
				}
			}
		}
	}
	panic(engErr("%s: symbolic value %s not supported (in %s)", what, termStr(t), p.where()))
}

func (p *Path) typeAssert(x Value, ins *ssa.TypeAssert) Value {
	iface, ok := x.(VIface)
	if !ok {
		panic(engErr("typeassert on %T", x))
	}
	okRes := false
	var res Value
	if iface.Ty != nil {
		if types.IsInterface(ins.AssertedType) {
			it := ins.AssertedType.Underlying().(*types.Interface)
			if p.eng.implements(iface, it) {
				okRes = true
				res = iface
			}
		} else if types.Identical(iface.Ty, ins.AssertedType) {
			okRes = true
			res = iface.Val
		}
	}
	if ins.CommaOk {
		if !okRes {
			if types.IsInterface(ins.AssertedType) {
				res = VIface{}
			} else {
				res = zeroValue(ins.AssertedType)
			}
		}
		return VTuple{E: []Value{res, VBool{BoolC(okRes)}}}
	}
	if !okRes {
		p.goPanicf("interface conversion: %v is not %v", iface.Ty, ins.AssertedType)
	}
	return res
}

// ---------- calls ----------

func (p *Path) doCall(fr *frame, call *ssa.CallCommon) Value {
	args := make([]Value, 0, len(call.Args)+1)
	if call.IsInvoke() {
		recv := p.operand(fr, call.Value)
		for _, a := range call.Args {
			args = append(args, p.operand(fr, a))
		}
		return p.invoke(recv, call.Method, args, call.Value.Type())
	}
	for _, a := range call.Args {
		args = append(args, p.operand(fr, a))
	}
	switch c := call.Value.(type) {
	case *ssa.Function:
		return p.callFunction(c, args, nil)
	case *ssa.Builtin:
		return p.builtin(c, args, call)
	}
	fnv := p.operand(fr, call.Value)
	return p.callValue(fnv, args)
}

func (p *Path) invoke(recv Value, m *types.Func, args []Value, staticIface types.Type) Value {
	iface, ok := recv.(VIface)
	if !ok {
		if _, isOp := recv.(VOpaque); isOp {
			// method on opaque value: try intrinsic by interface method name
			key := m.FullName()
			if in, ok := p.eng.intrinsics[key]; ok {
				return in(p, append([]Value{recv}, args...))
			}
			if p.tolerant {
				return opaqueResult(m.Type().(*types.Signature))
			}
		}
		panic(engErr("invoke %s on %T in %s", m.Name(), recv, p.where()))
	}
	key := m.FullName()
	if in, ok := p.eng.intrinsics[key]; ok {
		return in(p, append([]Value{recv}, args...))
	}
	if iface.Ty == nil {
		p.goPanicf("nil interface method call %s", m.Name())
	}
	// engine-native dynamic values
	switch v := iface.Val.(type) {
	case VErr:
		if m.Name() == "Error" {
			return VStr{StrC(v.Root + ": " + v.Msg)}
		}
	case VOpaque:
		k2 := "opaque." + m.Name()
		if in, ok := p.eng.intrinsics[k2]; ok {
			return in(p, append([]Value{recv}, args...))
		}
		if p.tolerant {
			return opaqueResult(m.Type().(*types.Signature))
		}
		panic(engErr("method %s on opaque %s (in %s)", m.Name(), v.What, p.where()))
	case VCtx:
		k2 := "ctx." + m.Name()
		if in, ok := p.eng.intrinsics[k2]; ok {
			return in(p, append([]Value{v}, args...))
		}
	}
	fn := p.eng.lookupMethod(iface.Ty, m)
	if fn == nil {
		panic(engErr("method %s not found on dynamic type %v", m.Name(), iface.Ty))
	}
	return p.callFunction(fn, append([]Value{iface.Val}, args...), nil)
}

func (p *Path) builtin(b *ssa.Builtin, args []Value, call *ssa.CallCommon) Value {
	switch b.Name() {
	case "len":
		switch x := args[0].(type) {
		case VSlice:
			return VInt{IntC64(int64(x.Len))}
		case VStr:
			return VInt{StrLen(x.T)}
		case VMap:
			if x.Nil {
				return VInt{IntC64(0)}
			}
			return VInt{IntC64(int64(len(x.Obj.V.(*VMapData).E)))}
		case *VArray:
			return VInt{IntC64(int64(len(x.E)))}
		case VPtr:
			return VInt{IntC64(int64(len(x.load().(*VArray).E)))}
		case VBlob:
			return VInt{x.Len}
		}
	case "cap":
		switch x := args[0].(type) {
		case VSlice:
			return VInt{IntC64(int64(x.Cap))}
		case *VArray:
			return VInt{IntC64(int64(len(x.E)))}
		}
	case "append":
		return p.appendSlice(args[0], args[1])
	case "copy":
		dst := args[0].(VSlice)
		var src []Value
		switch s := args[1].(type) {
		case VSlice:
			src = append(src, s.elems()...)
		case VStr:
			cs, ok := s.T.ConstStr()
			if !ok {
				panic(engErr("copy from symbolic string"))
			}
			for i := 0; i < len(cs); i++ {
				src = append(src, VInt{IntC64(int64(cs[i]))})
			}
		default:
			panic(engErr("copy from %T", args[1]))
		}
		n := dst.Len
		if len(src) < n {
			n = len(src)
		}
		if n > 0 {
			if dst.Obj.frozen {
				panic(engErr("copy into shared object"))
			}
			arr := dst.Obj.V.(*VArray)
			es := make([]Value, len(arr.E))
			copy(es, arr.E)
			copy(es[dst.Off:dst.Off+n], src[:n])
			dst.Obj.V = &VArray{E: es}
		}
		return VInt{IntC64(int64(n))}
	case "delete":
		p.mapDelete(args[0], args[1])
		return nil
	case "ssa:wrapnilchk":
		if ptr, ok := args[0].(VPtr); ok && ptr.Nil {
			p.goPanicf("value method called using nil pointer")
		}
		return args[0]
	case "print", "println":
		return nil
	case "recover":
		return VIface{}
	case "min", "max":
		x, y := args[0].(VInt), args[1].(VInt)
		if b.Name() == "min" {
			return VInt{Ite(Le(x.T, y.T), x.T, y.T)}
		}
		return VInt{Ite(Ge(x.T, y.T), x.T, y.T)}
	}
	panic(engErr("unsupported builtin %s on %T", b.Name(), args[0]))
}

func (p *Path) appendSlice(a, b Value) Value {
	var add []Value
	switch s := b.(type) {
	case VSlice:
		add = s.elems()
	case VStr:
		cs, ok := s.T.ConstStr()
		if !ok {
			panic(engErr("append symbolic string bytes"))
		}
		for i := 0; i < len(cs); i++ {
			add = append(add, VInt{IntC64(int64(cs[i]))})
		}
	case VBlob:
		panic(engErr("append of marshalled blob"))
	default:
		panic(engErr("append arg %T", b))
	}
	dst, ok := a.(VSlice)
	if !ok {
		panic(engErr("append to %T", a))
	}
	if len(add) == 0 {
		return dst
	}
	// Go reuses the backing array when capacity allows; model that exactly for the
	// len<cap case, and allocate a fresh exact-size array otherwise.
	if !dst.Nil && dst.Len+len(add) <= dst.Cap && !dst.Obj.frozen {
		arr := dst.Obj.V.(*VArray)
		es := make([]Value, len(arr.E))
		copy(es, arr.E)
		copy(es[dst.Off+dst.Len:], add)
		dst.Obj.V = &VArray{E: es}
		return VSlice{Obj: dst.Obj, Off: dst.Off, Len: dst.Len + len(add), Cap: dst.Cap}
	}
	old := dst.elems()
	es := make([]Value, 0, len(old)+len(add))
	es = append(es, old...)
	es = append(es, add...)
	return VSlice{Obj: p.newObj(&VArray{E: es}, "append"), Off: 0, Len: len(es), Cap: len(es)}
}

// ---------- conversions ----------

func (p *Path) convert(x Value, from, to types.Type) Value {
	if _, ok := to.(*types.TypeParam); ok {
		panic(engErr("convert to type parameter"))
	}
	fromU, toU := from.Underlying(), to.Underlying()
	if toTy, ok := intTyOf(to); ok {
		switch v := x.(type) {
		case VInt:
			return VInt{toTy.Wrap(v.T)}
		case VFloat:
			if v.Dur != nil && toTy.Bits == 64 && toTy.Signed {
				return VInt{durationSecondsInt(v.Dur)}
			}
			return VInt{fpToInt(v.T, toTy)}
		}
	}
	if tb, ok := toU.(*types.Basic); ok {
		if tb.Info()&types.IsFloat != 0 {
			switch v := x.(type) {
			case VInt:
				fty, _ := intTyOf(from)
				return VFloat{T: intToFP(v.T, fty)}
			case VFloat:
				return v
			}
		}
		if tb.Info()&types.IsString != 0 {
			switch v := x.(type) {
			case VStr:
				return v
			case VSlice:
				// []byte -> string
				var sb strings.Builder
				for _, e := range v.elems() {
					c, ok := e.(VInt).T.ConstInt()
					if !ok {
						return VStr{p.bytesToSymString(v)}
					}
					sb.WriteByte(byte(c.Int64()))
				}
				return VStr{StrC(sb.String())}
			case VInt:
				if c, ok := v.T.ConstInt(); ok {
					return VStr{StrC(string(rune(c.Int64())))}
				}
			}
		}
	}
	if ts, ok := toU.(*types.Slice); ok {
		if eb, ok := ts.Elem().Underlying().(*types.Basic); ok && eb.Kind() == types.Uint8 {
			switch v := x.(type) {
			case VStr:
				cs, ok := v.T.ConstStr()
				if !ok {
					panic(engErr("[]byte(symbolic string) in %s", p.where()))
				}
				es := make([]Value, len(cs))
				for i := 0; i < len(cs); i++ {
					es[i] = VInt{IntC64(int64(cs[i]))}
				}
				return VSlice{Obj: p.newObj(&VArray{E: es}, "[]byte(str)"), Len: len(es), Cap: len(es)}
			case VSlice:
				return v
			case VBlob:
				return v
			}
		}
		if _, ok := fromU.(*types.Slice); ok {
			return x
		}
	}
	if _, ok := toU.(*types.Pointer); ok {
		return x
	}
	if types.Identical(fromU, toU) {
		return x
	}
	panic(engErr("unsupported conversion %v -> %v (%T) in %s", from, to, x, p.where()))
}

func (p *Path) bytesToSymString(v VSlice) *Term {
	// string made of symbolic bytes: represent as uninterpreted injective-ish encoding of the
	// byte vector; only equality with identical vectors is meaningful.
	panic(engErr("string(symbolic bytes) not supported (in %s)", p.where()))
}

// ---------- maps ----------

func (p *Path) keyEq(a, b Value) *Term { return p.eqValues(a, b) }

func (p *Path) lookup(m, key Value, ins *ssa.Lookup) Value {
	if s, ok := m.(VStr); ok {
		return p.index(s, key)
	}
	mv, ok := m.(VMap)
	if !ok {
		panic(engErr("lookup in %T", m))
	}
	vt := ins.X.Type().Underlying().(*types.Map).Elem()
	var found Value
	okb := false
	if !mv.Nil {
		for _, e := range mv.Obj.V.(*VMapData).E {
			if p.Decide(p.keyEq(e.K, key)) {
				found = e.V
				okb = true
				break
			}
		}
	}
	if !okb {
		found = zeroValue(vt)
	}
	if ins.CommaOk {
		return VTuple{E: []Value{found, VBool{BoolC(okb)}}}
	}
	return found
}

func (p *Path) mapUpdate(m, key, val Value) {
	mv, ok := m.(VMap)
	if !ok {
		if _, isOp := m.(VOpaque); isOp && p.tolerant {
			return
		}
		panic(engErr("mapupdate on %T", m))
	}
	if mv.Nil {
		p.goPanicf("assignment to entry in nil map")
	}
	if mv.Obj.frozen {
		panic(engErr("update of shared package-level map"))
	}
	md := mv.Obj.V.(*VMapData)
	for i, e := range md.E {
		if p.Decide(p.keyEq(e.K, key)) {
			ne := make([]mapEntry, len(md.E))
			copy(ne, md.E)
			ne[i] = mapEntry{e.K, val}
			mv.Obj.V = &VMapData{E: ne}
			return
		}
	}
	ne := make([]mapEntry, len(md.E)+1)
	copy(ne, md.E)
	ne[len(md.E)] = mapEntry{key, val}
	mv.Obj.V = &VMapData{E: ne}
}

func (p *Path) mapDelete(m, key Value) {
	mv := m.(VMap)
	if mv.Nil {
		return
	}
	md := mv.Obj.V.(*VMapData)
	for i, e := range md.E {
		if p.Decide(p.keyEq(e.K, key)) {
			ne := make([]mapEntry, 0, len(md.E)-1)
			ne = append(ne, md.E[:i]...)
			ne = append(ne, md.E[i+1:]...)
			mv.Obj.V = &VMapData{E: ne}
			return
		}
	}
}

func (p *Path) rangeOf(x Value) Value {
	switch v := x.(type) {
	case VMap:
		it := &VIter{}
		if !v.Nil {
			es := v.Obj.V.(*VMapData).E
			it.Entries = make([]mapEntry, len(es))
			copy(it.Entries, es)
			if len(es) > 1 {
				// Go's map iteration order is unspecified: explore every order.
				p.hr.noteMapRange(p.where())
				if len(es) > 4 {
					// bound: beyond 4 entries only the rotations of insertion order and of its
					// reverse are explored (2n orders instead of n!)
					p.hr.noteAssumption("map iteration over more than 4 entries: only rotations of insertion order and of its reverse are explored")
					n := len(es)
					k := p.Choose(2 * n)
					ord := make([]mapEntry, n)
					for i := 0; i < n; i++ {
						if k < n {
							ord[i] = es[(i+k)%n]
						} else {
							ord[i] = es[(2*n-1-i+k)%n]
						}
					}
					it.Entries = ord
					return it
				}
				rest := it.Entries
				var ord []mapEntry
				for len(rest) > 0 {
					k := p.Choose(len(rest))
					ord = append(ord, rest[k])
					nr := make([]mapEntry, 0, len(rest)-1)
					nr = append(nr, rest[:k]...)
					nr = append(nr, rest[k+1:]...)
					rest = nr
				}
				it.Entries = ord
			}
		}
		return it
	case VStr:
		return &VIter{Str: &v, IsStr: true}
	}
	panic(engErr("range over %T", x))
}

func (p *Path) next(itv Value, ins *ssa.Next) Value {
	it := itv.(*VIter)
	if ins.IsString {
		s, ok := it.Str.T.ConstStr()
		if !ok {
			panic(engErr("range over symbolic string"))
		}
		if it.Pos >= len(s) {
			return VTuple{E: []Value{VBool{tFalse}, VInt{IntC64(0)}, VInt{IntC64(0)}}}
		}
		// byte-wise for ASCII; decode runes properly
		r, size := decodeRune(s[it.Pos:])
		pos := it.Pos
		it.Pos += size
		return VTuple{E: []Value{VBool{tTrue}, VInt{IntC64(int64(pos))}, VInt{IntC64(int64(r))}}}
	}
	if it.Pos >= len(it.Entries) {
		tup := ins.Type().(*types.Tuple)
		return VTuple{E: []Value{VBool{tFalse}, zeroOrNil(tup.At(1).Type()), zeroOrNil(tup.At(2).Type())}}
	}
	e := it.Entries[it.Pos]
	it.Pos++
	return VTuple{E: []Value{VBool{tTrue}, e.K, e.V}}
}

func zeroOrNil(t types.Type) Value {
	if b, ok := t.(*types.Basic); ok && b.Kind() == types.Invalid {
		return nil
	}
	return zeroValue(t)
}

func decodeRune(s string) (rune, int) {
	for i, r := range s {
		_ = i
		n := len(string(r))
		if r == 0xFFFD {
			n = 1
		}
		return r, n
	}
	return 0, 0
}
