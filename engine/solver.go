package main

// Persistent SMT solver processes (z3-new, cvc5, z3) and the per-path incremental session.

import (
	"bufio"
	"fmt"
	"io"
	"os"
	"os/exec"
	"strings"
	"sync"
	"sync/atomic"
	"time"
)

const preludeCommon = `
(declare-fun validDenom (String) Bool)
(declare-fun opaqueStr (Int) String)
(declare-fun decStrOK (String) Bool)
(declare-fun decRawOfStr (String) Int)
`
const preludeExact = preludeCommon + "(define-fun nlmul ((a Int) (b Int)) Int (* a b))\n(define-fun nldiv ((a Int) (b Int)) Int (div a b))\n"
const preludeUF = preludeCommon + "(declare-fun nlmul (Int Int) Int)\n(declare-fun nldiv (Int Int) Int)\n"

type Solver struct {
	kind    string
	cmd     *exec.Cmd
	in      io.WriteCloser
	out     *bufio.Reader
	timeout time.Duration
	dead    bool
	lines   chan string
}

func solverArgs(kind string, timeoutMs int) (string, []string) {
	switch kind {
	case "z3new", "z3new-uf":
		return "z3-new", []string{"-in", fmt.Sprintf("-t:%d", timeoutMs)}
	case "z3":
		return "z3", []string{"-in", fmt.Sprintf("-t:%d", timeoutMs)}
	case "cvc5":
		return "cvc5", []string{"--incremental", "--produce-models", "--strings-exp", fmt.Sprintf("--tlimit-per=%d", timeoutMs), "--lang=smt2"}
	}
	panic("unknown solver " + kind)
}

func startSolver(kind string, timeoutMs int) (*Solver, error) {
	bin, args := solverArgs(kind, timeoutMs)
	cmd := exec.Command(bin, args...)
	in, err := cmd.StdinPipe()
	if err != nil {
		return nil, err
	}
	outp, err := cmd.StdoutPipe()
	if err != nil {
		return nil, err
	}
	cmd.Stderr = nil
	if err := cmd.Start(); err != nil {
		return nil, err
	}
	s := &Solver{kind: kind, cmd: cmd, in: in, out: bufio.NewReaderSize(outp, 1<<16), timeout: time.Duration(timeoutMs) * time.Millisecond}
	s.lines = make(chan string, 256)
	go func() {
		for {
			line, err := s.out.ReadString('\n')
			if line != "" {
				s.lines <- strings.TrimRight(line, "\r\n")
			}
			if err != nil {
				close(s.lines)
				return
			}
		}
	}()
	if kind == "cvc5" {
		s.Send("(set-logic ALL)")
	}
	s.Send("(set-option :produce-models true)")
	if kind == "z3new-uf" {
		s.Send(preludeUF)
	} else {
		s.Send(preludeExact)
	}
	return s, nil
}

func (s *Solver) Send(cmd string) {
	if s.dead {
		return
	}
	if _, err := io.WriteString(s.in, cmd+"\n"); err != nil {
		s.dead = true
	}
}

func (s *Solver) Kill() {
	s.dead = true
	if s.cmd != nil && s.cmd.Process != nil {
		s.cmd.Process.Kill()
		go s.cmd.Wait()
	}
}

var endSeq int64

// roundTrip sends cmds followed by an echo marker and returns all output lines before it.
func (s *Solver) roundTrip(cmds string) ([]string, bool) {
	if s.dead {
		return nil, false
	}
	marker := fmt.Sprintf("!!END%d", atomic.AddInt64(&endSeq, 1))
	s.Send(cmds)
	s.Send(fmt.Sprintf("(echo \"%s\")", marker))
	var lines []string
	deadline := time.After(s.timeout*2 + 5*time.Second)
	for {
		select {
		case l, ok := <-s.lines:
			if !ok {
				s.dead = true
				return lines, false
			}
			if strings.Contains(l, marker) {
				return lines, true
			}
			lines = append(lines, l)
		case <-deadline:
			s.Kill()
			return lines, false
		}
	}
}

type SatResult int

const (
	Unsat SatResult = iota
	Sat
	Unknown
)

func (r SatResult) String() string { return [...]string{"unsat", "sat", "unknown"}[r] }

func classify(lines []string, ok bool) SatResult {
	if !ok {
		return Unknown
	}
	res := Unknown
	for _, l := range lines {
		if strings.HasPrefix(l, "(error") {
			if debugSolver {
				fmt.Println("SOLVER ERROR:", l)
			}
			return Unknown
		}
		switch strings.TrimSpace(l) {
		case "sat":
			res = Sat
		case "unsat":
			res = Unsat
		case "unknown", "timeout":
			res = Unknown
		}
	}
	return res
}

var debugSolver = false
var ufDbg int
var traceSolver = os.Getenv("SYMGO_TRACE") != ""

// ---------- statistics ----------

type SolverStats struct {
	mu      sync.Mutex
	Queries map[string]int
	TimeS   map[string]float64
	Unknown int
	Fallbk  int
}

func newStats() *SolverStats {
	return &SolverStats{Queries: map[string]int{}, TimeS: map[string]float64{}}
}
func (st *SolverStats) add(kind string, d time.Duration) {
	st.mu.Lock()
	st.Queries[kind]++
	st.TimeS[kind] += d.Seconds()
	st.mu.Unlock()
}

// ---------- session ----------

type Session struct {
	order   []string // solver kinds in preference order
	solvers map[string]*Solver
	tmo     int
	script  []string
	r       *Renderer
	stats   *SolverStats
	inPath  bool
	where   string
	noUF    bool
	dump    io.Writer
	asserted map[thash]bool // conjuncts of the current path condition, by structural hash
}

func NewSession(order []string, timeoutMs int, stats *SolverStats) *Session {
	return &Session{order: order, solvers: map[string]*Solver{}, tmo: timeoutMs, stats: stats}
}

func (se *Session) solver(kind string) *Solver {
	s := se.solvers[kind]
	if s == nil || s.dead {
		ns, err := startSolver(kind, se.tmo)
		if err != nil {
			panic(engineErr{"cannot start solver " + kind + ": " + err.Error()})
		}
		se.solvers[kind] = ns
		s = ns
		if kind == se.order[0] && se.inPath {
			// re-establish path scope on restarted primary
			s.Send("(push)")
			for _, c := range se.script {
				s.Send(c)
			}
		}
	}
	return s
}

func (se *Session) Close() {
	for _, s := range se.solvers {
		s.Send("(exit)")
		s.Kill()
	}
}

func (se *Session) emit(cmd string) {
	se.script = append(se.script, cmd)
	if p := se.solvers[se.order[0]]; p != nil && !p.dead {
		p.Send(cmd)
	}
	if se.dump != nil {
		fmt.Fprintln(se.dump, cmd)
	}
}

func (se *Session) BeginPath() {
	se.script = se.script[:0]
	se.r = NewRenderer(se.emit)
	se.asserted = map[thash]bool{}
	p := se.solver(se.order[0])
	p.Send("(push)")
	se.inPath = true
}

func (se *Session) EndPath() {
	if !se.inPath {
		return
	}
	se.inPath = false
	if p := se.solvers[se.order[0]]; p != nil && !p.dead {
		p.Send("(pop)")
	}
}

// markAsserted records t (and, for a conjunction, its conjuncts) as part of the path condition.
func (se *Session) markAsserted(t *Term) {
	if t.op == "and" {
		for _, a := range t.args {
			se.markAsserted(a)
		}
	}
	se.asserted[se.r.h.of(t)] = true
}

// Implied reports whether t is syntactically one of the conjuncts already asserted on this path.
func (se *Session) Implied(t *Term) bool {
	if se.asserted == nil || t.op == "c" {
		return false
	}
	return se.asserted[se.r.h.of(t)]
}

func (se *Session) Assert(t *Term) {
	if v, ok := t.ConstBool(); ok && v {
		return
	}
	se.markAsserted(t)
	s := se.r.Render(t)
	se.emit("(assert " + s + ")")
}

// CheckBranch decides whether a branch condition is feasible. When the path condition contains
// non-linear products the question is put to the uninterpreted-product abstraction only: `unsat`
// there is definitive (the side is pruned); anything else keeps the side. Exploring a side that is
// in fact infeasible is sound: every obligation on it is still decided exactly (path ∧ ¬assertion
// is then unsat), it only costs time — far less than exact non-linear sat queries at every branch.
func (se *Session) CheckBranch(c *Term) SatResult {
	if v, ok := c.ConstBool(); ok && !v {
		return Unsat
	}
	es := se.r.Render(c)
	if !se.r.sawNL || se.noUF {
		r, _ := se.Check(c, nil)
		return r
	}
	s := se.solver("z3new-uf")
	var sb strings.Builder
	sb.WriteString("(push)\n")
	for _, cmd := range se.script {
		sb.WriteString(cmd)
		sb.WriteByte('\n')
	}
	sb.WriteString("(assert " + es + ")\n(check-sat)")
	t0 := time.Now()
	lines, ok := s.roundTrip(sb.String())
	res := classify(lines, ok)
	se.stats.add("z3new-uf", time.Since(t0))
	if ok {
		s.Send("(pop)")
	}
	if traceSolver {
		fmt.Printf("  [q z3new-uf(branch) %s %.2fs] %s\n", res, time.Since(t0).Seconds(), se.where)
	}
	if res == Unsat {
		return Unsat
	}
	return Sat
}

// Check decides satisfiability of (path condition ∧ extra). If wantModel is non-empty and the
// answer is sat, values for those terms are returned (rendered name -> value text).
func (se *Session) Check(extra *Term, wantModel []*Term) (SatResult, map[string]string) {
	if v, ok := extra.ConstBool(); ok && !v {
		return Unsat, nil
	}
	es := se.r.Render(extra)
	var names []string
	for _, w := range wantModel {
		names = append(names, se.r.Render(w))
	}
	if se.r.sawNL && !se.noUF {
		// sound abstraction: non-linear products as an uninterpreted function; only an
		// `unsat` answer is used
		s := se.solver("z3new-uf")
		var sb strings.Builder
		sb.WriteString("(push)\n")
		for _, c := range se.script {
			sb.WriteString(c)
			sb.WriteByte('\n')
		}
		sb.WriteString("(assert " + es + ")\n(check-sat)")
		t0 := time.Now()
		lines, ok := s.roundTrip(sb.String())
		res := classify(lines, ok)
		se.stats.add("z3new-uf", time.Since(t0))
		if ok {
			s.Send("(pop)")
		}
		if traceSolver {
			fmt.Printf("  [q z3new-uf %s %.2fs] %s\n", res, time.Since(t0).Seconds(), se.where)
		}
		if res == Unsat {
			return Unsat, nil
		}
		if d := os.Getenv("SYMGO_UFDEBUG"); d != "" && res == Sat && strings.Contains(se.where, d) {
			ufDbg++
			os.WriteFile(fmt.Sprintf("/tmp/ufq_%d.smt2", ufDbg), []byte(preludeUF+strings.TrimPrefix(sb.String(), "(push)\n")+"\n(get-model)\n"), 0o644)
		}
	}
	for i, kind := range se.order {
		s := se.solver(kind)
		var sb strings.Builder
		if i == 0 {
			sb.WriteString("(push)\n")
		} else {
			se.stats.mu.Lock()
			se.stats.Fallbk++
			se.stats.mu.Unlock()
			sb.WriteString("(push)\n")
			for _, c := range se.script {
				sb.WriteString(c)
				sb.WriteByte('\n')
			}
		}
		sb.WriteString("(assert " + es + ")\n(check-sat)")
		if se.dump != nil {
			fmt.Fprintln(se.dump, "; --- check on", kind)
			fmt.Fprintln(se.dump, "(push)\n(assert "+es+")\n(check-sat)\n(pop)")
		}
		t0 := time.Now()
		lines, ok := s.roundTrip(sb.String())
		res := classify(lines, ok)
		se.stats.add(kind, time.Since(t0))
		if traceSolver {
			fmt.Printf("  [q %s %s %.2fs] %s :: %s\n", kind, res, time.Since(t0).Seconds(), se.where, shorten(es, 200))
		}
		var model map[string]string
		if res == Sat && len(names) > 0 {
			ml, ok2 := s.roundTrip("(get-value (" + strings.Join(names, " ") + "))")
			if ok2 {
				model = parseModel(strings.Join(ml, "\n"), names)
			}
		}
		if ok {
			s.Send("(pop)")
		}
		if res != Unknown {
			return res, model
		}
	}
	se.stats.mu.Lock()
	se.stats.Unknown++
	se.stats.mu.Unlock()
	return Unknown, nil
}

// ---------- s-expression model parsing ----------

type sexp struct {
	atom string
	list []*sexp
	isL  bool
}

func parseSexps(s string) []*sexp {
	var out []*sexp
	pos := 0
	for {
		e, np := parseSexp(s, pos)
		if e == nil {
			break
		}
		out = append(out, e)
		pos = np
	}
	return out
}

func parseSexp(s string, pos int) (*sexp, int) {
	for pos < len(s) && (s[pos] == ' ' || s[pos] == '\n' || s[pos] == '\t' || s[pos] == '\r') {
		pos++
	}
	if pos >= len(s) {
		return nil, pos
	}
	if s[pos] == '(' {
		e := &sexp{isL: true}
		pos++
		for {
			for pos < len(s) && (s[pos] == ' ' || s[pos] == '\n' || s[pos] == '\t' || s[pos] == '\r') {
				pos++
			}
			if pos >= len(s) {
				return e, pos
			}
			if s[pos] == ')' {
				return e, pos + 1
			}
			c, np := parseSexp(s, pos)
			if c == nil {
				return e, np
			}
			e.list = append(e.list, c)
			pos = np
		}
	}
	if s[pos] == '"' {
		j := pos + 1
		var sb strings.Builder
		for j < len(s) {
			if s[j] == '"' {
				if j+1 < len(s) && s[j+1] == '"' {
					sb.WriteByte('"')
					j += 2
					continue
				}
				break
			}
			sb.WriteByte(s[j])
			j++
		}
		return &sexp{atom: "\"" + sb.String()}, j + 1
	}
	j := pos
	for j < len(s) && !strings.ContainsRune(" \n\t\r()", rune(s[j])) {
		j++
	}
	return &sexp{atom: s[pos:j]}, j
}

func (e *sexp) String() string {
	if !e.isL {
		return e.atom
	}
	var parts []string
	for _, c := range e.list {
		parts = append(parts, c.String())
	}
	return "(" + strings.Join(parts, " ") + ")"
}

// evalNum evaluates simple numeric model values: 5, (- 5), (/ 1 2) not supported -> text
func sexpValue(e *sexp) string {
	if !e.isL {
		if strings.HasPrefix(e.atom, "\"") {
			return "s:" + unescapeSmt(e.atom[1:])
		}
		return e.atom
	}
	if len(e.list) == 2 && e.list[0].atom == "-" {
		return "-" + sexpValue(e.list[1])
	}
	return e.String()
}

func unescapeSmt(s string) string {
	var sb strings.Builder
	for i := 0; i < len(s); i++ {
		if s[i] == '\\' && i+2 < len(s) && s[i+1] == 'u' && s[i+2] == '{' {
			j := strings.IndexByte(s[i:], '}')
			if j > 0 {
				var v int
				fmt.Sscanf(s[i+3:i+j], "%x", &v)
				sb.WriteByte(byte(v))
				i += j
				continue
			}
		}
		if s[i] == '\\' && i+1 < len(s) && s[i+1] == 'x' && i+3 < len(s) {
			var v int
			fmt.Sscanf(s[i+2:i+4], "%x", &v)
			sb.WriteByte(byte(v))
			i += 3
			continue
		}
		sb.WriteByte(s[i])
	}
	return sb.String()
}

func parseModel(out string, names []string) map[string]string {
	m := map[string]string{}
	es := parseSexps(out)
	for _, top := range es {
		if !top.isL {
			continue
		}
		for _, pair := range top.list {
			if pair.isL && len(pair.list) == 2 {
				m[pair.list[0].String()] = sexpValue(pair.list[1])
			}
		}
	}
	return m
}
