package main

import (
	"crypto/sha256"
	"fmt"
	"go/types"
	"regexp"
	"strings"

	"golang.org/x/tools/go/ssa"
)

const bech32HRP = "und"

// ---------- bech32 (BIP-173) ----------

const bech32Charset = "qpzry9x8gf2tvdw0s3jn54khce6mua7l"

func bech32Polymod(values []byte) uint32 {
	gen := []uint32{0x3b6a57b2, 0x26508e6d, 0x1ea119fa, 0x3d4233dd, 0x2a1462b3}
	chk := uint32(1)
	for _, v := range values {
		b := chk >> 25
		chk = (chk&0x1ffffff)<<5 ^ uint32(v)
		for i := 0; i < 5; i++ {
			if (b>>uint(i))&1 == 1 {
				chk ^= gen[i]
			}
		}
	}
	return chk
}

func bech32HrpExpand(hrp string) []byte {
	var out []byte
	for i := 0; i < len(hrp); i++ {
		out = append(out, hrp[i]>>5)
	}
	out = append(out, 0)
	for i := 0; i < len(hrp); i++ {
		out = append(out, hrp[i]&31)
	}
	return out
}

func convertBits(data []byte, from, to uint, pad bool) ([]byte, bool) {
	acc, bits := uint32(0), uint(0)
	var out []byte
	maxv := uint32(1<<to) - 1
	for _, v := range data {
		if uint32(v)>>from != 0 {
			return nil, false
		}
		acc = acc<<from | uint32(v)
		bits += from
		for bits >= to {
			bits -= to
			out = append(out, byte(acc>>bits&maxv))
		}
	}
	if pad {
		if bits > 0 {
			out = append(out, byte(acc<<(to-bits)&maxv))
		}
	} else if bits >= from || (acc<<(to-bits))&maxv != 0 {
		return nil, false
	}
	return out, true
}

func bech32Encode(hrp string, data []byte) string {
	d5, _ := convertBits(data, 8, 5, true)
	values := append(bech32HrpExpand(hrp), d5...)
	values = append(values, 0, 0, 0, 0, 0, 0)
	mod := bech32Polymod(values) ^ 1
	var sb strings.Builder
	sb.WriteString(hrp)
	sb.WriteByte('1')
	for _, v := range d5 {
		sb.WriteByte(bech32Charset[v])
	}
	for i := 0; i < 6; i++ {
		sb.WriteByte(bech32Charset[(mod>>uint(5*(5-i)))&31])
	}
	return sb.String()
}

func bech32Decode(s string) (string, []byte, bool) {
	if len(s) < 8 {
		return "", nil, false
	}
	lower, upper := strings.ToLower(s), strings.ToUpper(s)
	if s != lower && s != upper {
		return "", nil, false
	}
	s = lower
	pos := strings.LastIndexByte(s, '1')
	if pos < 1 || pos+7 > len(s) {
		return "", nil, false
	}
	hrp := s[:pos]
	var data []byte
	for i := pos + 1; i < len(s); i++ {
		k := strings.IndexByte(bech32Charset, s[i])
		if k < 0 {
			return "", nil, false
		}
		data = append(data, byte(k))
	}
	if bech32Polymod(append(bech32HrpExpand(hrp), data...)) != 1 {
		return "", nil, false
	}
	out, ok := convertBits(data[:len(data)-6], 5, 8, false)
	if !ok {
		return "", nil, false
	}
	return hrp, out, true
}

func (p *Path) constBytes(v Value) ([]byte, bool) {
	sl, ok := v.(VSlice)
	if !ok {
		return nil, false
	}
	es := sl.elems()
	out := make([]byte, len(es))
	for i, ev := range es {
		c, ok := ev.(VInt).T.ConstInt()
		if !ok {
			return nil, false
		}
		out[i] = byte(c.Int64())
	}
	return out, true
}

func (p *Path) bytesValue(b []byte, label string) Value {
	es := make([]Value, len(b))
	for i, c := range b {
		es[i] = VInt{IntC64(int64(c))}
	}
	return VSlice{Obj: p.newObj(&VArray{E: es}, label), Len: len(es), Cap: len(es)}
}

var denomRe = regexp.MustCompile(`^[a-zA-Z][a-zA-Z0-9/:._-]{2,127}$`)

func registerSDK(e *Engine) {
	in := e.intrinsics
	const S = "github.com/cosmos/cosmos-sdk/types."
	const C = "(github.com/cosmos/cosmos-sdk/types.Context)."

	// ----- addresses -----
	in[S+"AccAddressFromBech32"] = func(p *Path, a []Value) Value {
		s, ok := tStr(a[0]).ConstStr()
		if !ok {
			panic(engErr("AccAddressFromBech32 on symbolic string (in %s)", p.where()))
		}
		if len(strings.TrimSpace(s)) == 0 {
			return tuple(VSlice{Obj: p.newObj(&VArray{}, "emptyaddr"), Len: 0, Cap: 0}, p.eng.errVal("errors.New/empty address", "empty address string is not allowed"))
		}
		hrp, data, ok := bech32Decode(s)
		if !ok || hrp != bech32HRP {
			return tuple(VSlice{Nil: true}, p.eng.errVal("bech32", "decoding bech32 failed"))
		}
		if len(data) == 0 || len(data) > 255 {
			return tuple(VSlice{Nil: true}, p.eng.errVal("sdk/7", "bad address length"))
		}
		return tuple(p.bytesValue(data, "addr"), nilErr)
	}
	in[S+"MustAccAddressFromBech32"] = func(p *Path, a []Value) Value {
		r := in[S+"AccAddressFromBech32"](p, a).(VTuple)
		if r.E[1].(VIface).Ty != nil {
			p.goPanicf("MustAccAddressFromBech32: invalid address")
		}
		return r.E[0]
	}
	in["(github.com/cosmos/cosmos-sdk/types.AccAddress).String"] = func(p *Path, a []Value) Value {
		sl := a[0].(VSlice)
		if sl.Nil || sl.Len == 0 {
			return VStr{StrC("")}
		}
		b, ok := p.constBytes(sl)
		if !ok {
			panic(engErr("AccAddress.String on symbolic bytes (in %s)", p.where()))
		}
		return VStr{StrC(bech32Encode(bech32HRP, b))}
	}
	in[S+"VerifyAddressFormat"] = func(p *Path, a []Value) Value {
		sl := a[0].(VSlice)
		if sl.Len == 0 || sl.Len > 255 {
			return p.eng.errVal("sdk/7", "bad address length")
		}
		return nilErr
	}
	in["github.com/cosmos/cosmos-sdk/x/auth/types.NewModuleAddress"] = func(p *Path, a []Value) Value {
		name := cStr(a[0], "module name")
		h := sha256.Sum256([]byte(name))
		return p.bytesValue(h[:20], "modaddr:"+name)
	}
	in["github.com/cosmos/cosmos-sdk/types/address.Module"] = func(p *Path, a []Value) Value {
		name := cStr(a[0], "module name")
		h := sha256.Sum256([]byte(name))
		return p.bytesValue(h[:20], "modaddr:"+name)
	}

	// ----- denoms -----
	in[S+"ValidateDenom"] = func(p *Path, a []Value) Value {
		t := tStr(a[0])
		if s, ok := t.ConstStr(); ok {
			if denomRe.MatchString(s) {
				return nilErr
			}
			return p.eng.errVal("fmt.Errorf/invalid denom", "invalid denom")
		}
		valid := And(App("validDenom", SBool, t), Ge(StrLen(t), IntC64(3)), Le(StrLen(t), IntC64(128)))
		if p.Decide(valid) {
			return nilErr
		}
		return p.eng.errVal("fmt.Errorf/invalid denom", "invalid denom")
	}

	// ----- Context -----
	ctxOf := func(v Value) VCtx {
		switch x := v.(type) {
		case VCtx:
			return x
		case VPtr:
			return x.load().(VCtx)
		case VIface:
			if c, ok := x.Val.(VCtx); ok {
				return c
			}
		}
		panic(engErr("expected sdk.Context, got %T", v))
	}
	in[rtPkgPath+".NewContext"] = func(p *Path, a []Value) Value {
		// NewContext(ms MultiStore, t time.Time, height int64, checkTx bool) sdk.Context
		return VCtx{MS: a[0], Time: time_(a[1]), Height: tInt(a[2]), CheckTx: tBool(a[3]), ReCheck: tFalse, Valid: true}
	}
	in[C+"BlockTime"] = func(p *Path, a []Value) Value { return ctxOf(a[0]).Time }
	in[C+"BlockHeader"] = func(p *Path, a []Value) Value {
		c := ctxOf(a[0])
		pk := p.eng.ssaPkg("github.com/cometbft/cometbft/proto/tendermint/types")
		if pk == nil {
			panic(engErr("tendermint types package not loaded"))
		}
		ht := pk.Type("Header").Type()
		st := ht.Underlying().(*types.Struct)
		hv := zeroValue(ht).(*VStruct)
		fs := make([]Value, len(hv.F))
		copy(fs, hv.F)
		for i := 0; i < st.NumFields(); i++ {
			switch st.Field(i).Name() {
			case "Time":
				fs[i] = c.Time
			case "Height":
				fs[i] = VInt{c.Height}
			case "ChainID":
				fs[i] = VStr{StrC("und-verif")}
			}
		}
		return &VStruct{F: fs}
	}
	in[C+"BlockHeight"] = func(p *Path, a []Value) Value { return VInt{ctxOf(a[0]).Height} }
	in[C+"IsCheckTx"] = func(p *Path, a []Value) Value { return VBool{ctxOf(a[0]).CheckTx} }
	in[C+"IsReCheckTx"] = func(p *Path, a []Value) Value { return VBool{ctxOf(a[0]).ReCheck} }
	in[C+"ChainID"] = func(p *Path, a []Value) Value { return VStr{StrC("und-verif")} }
	in[C+"Logger"] = func(p *Path, a []Value) Value { return VOpaque{"logger"} }
	in[C+"EventManager"] = func(p *Path, a []Value) Value { return VOpaque{"eventmanager"} }
	in[C+"GasMeter"] = func(p *Path, a []Value) Value { return VOpaque{"gasmeter"} }
	in[C+"Context"] = func(p *Path, a []Value) Value {
		return VIface{Ty: ctxType(p.eng), Val: ctxOf(a[0])}
	}
	in[C+"KVStore"] = func(p *Path, a []Value) Value {
		c := ctxOf(a[0])
		if !c.Valid {
			panic(engErr("KVStore on zero sdk.Context"))
		}
		ms := c.MS.(VIface)
		fn := p.eng.lookupMethodByName(ms.Ty, "GetKVStore")
		if fn == nil {
			panic(engErr("model MultiStore lacks GetKVStore"))
		}
		return p.callFunction(fn, []Value{ms.Val, a[1]}, nil)
	}
	in[C+"WithBlockTime"] = func(p *Path, a []Value) Value {
		c := ctxOf(a[0])
		c.Time = time_(a[1])
		return c
	}
	in[C+"WithBlockHeight"] = func(p *Path, a []Value) Value {
		c := ctxOf(a[0])
		c.Height = tInt(a[1])
		return c
	}
	in[C+"WithIsCheckTx"] = func(p *Path, a []Value) Value {
		c := ctxOf(a[0])
		c.CheckTx = tBool(a[1])
		return c
	}
	in[C+"WithIsReCheckTx"] = func(p *Path, a []Value) Value {
		// sdk.Context.WithIsReCheckTx(true) also sets checkTx
		c := ctxOf(a[0])
		c.ReCheck = tBool(a[1])
		c.CheckTx = Or(c.CheckTx, c.ReCheck)
		return c
	}
	in[C+"WithEventManager"] = func(p *Path, a []Value) Value { return ctxOf(a[0]) }
	in[C+"WithGasMeter"] = func(p *Path, a []Value) Value { return ctxOf(a[0]) }
	in[C+"CacheContext"] = func(p *Path, a []Value) Value {
		panic(engErr("CacheContext not modelled"))
	}
	in[S+"WrapSDKContext"] = func(p *Path, a []Value) Value {
		return VIface{Ty: ctxType(p.eng), Val: ctxOf(a[0])}
	}
	in[S+"UnwrapSDKContext"] = func(p *Path, a []Value) Value { return ctxOf(a[0]) }

	// ----- events / telemetry / logging: no observable effect for the properties -----
	nop := func(p *Path, a []Value) Value { return nil }
	opq := func(what string) Intrinsic { return func(p *Path, a []Value) Value { return VOpaque{what} } }
	in["(*"+S[:len(S)-1]+".EventManager).EmitEvent"] = nop
	in["(*"+S[:len(S)-1]+".EventManager).EmitEvents"] = nop
	in["(*"+S[:len(S)-1]+".EventManager).EmitTypedEvent"] = func(p *Path, a []Value) Value { return nilErr }
	in[S+"NewEvent"] = opq("event")
	in[S+"NewAttribute"] = opq("attribute")
	in[S+"NewEventManager"] = opq("eventmanager")
	const TL = "github.com/cosmos/cosmos-sdk/telemetry."
	for _, n := range []string{"IncrCounter", "IncrCounterWithLabels", "SetGauge", "SetGaugeWithLabels", "MeasureSince", "ModuleMeasureSince", "ModuleSetGauge"} {
		in[TL+n] = nop
	}
	in[TL+"NewLabel"] = opq("label")
	in[TL+"Now"] = func(p *Path, a []Value) Value { return in["time.Now"](p, nil) }
	const LG = "(github.com/cometbft/cometbft/libs/log.Logger)."
	in[LG+"With"] = opq("logger")
	in[LG+"Debug"] = nop
	in[LG+"Info"] = nop
	in[LG+"Error"] = nop
	in["(github.com/cosmos/cosmos-sdk/store/types.GasMeter).ConsumeGas"] = nop

	// ----- codec (protobuf round trip assumed to be the identity) -----
	const BC = "(github.com/cosmos/cosmos-sdk/codec.BinaryCodec)."
	marshal := func(p *Path, a []Value) Value {
		// a[0]=codec, a[1]=ProtoMarshaler iface holding *T
		iv, ok := a[1].(VIface)
		if !ok || iv.Ty == nil {
			p.goPanicf("marshal of nil")
		}
		ptr, ok := iv.Val.(VPtr)
		if !ok || ptr.Nil {
			p.goPanicf("marshal of nil pointer")
		}
		val := ptr.load()
		et := iv.Ty.(*types.Pointer).Elem()
		p.checkMarshalTimes(val)
		ln := p.freshInt("bloblen", bi(0), bi(1<<20))
		p.trace = append(p.trace, "marshal "+et.String())
		return VBlob{Val: resolveCells(val), Ty: et, Len: ln}
	}
	in[BC+"MustMarshal"] = marshal
	in[BC+"Marshal"] = func(p *Path, a []Value) Value { return tuple(marshal(p, a), nilErr) }
	unmarshal := func(p *Path, a []Value) Value {
		bl, ok := a[1].(VBlob)
		if !ok {
			if sl, isSl := a[1].(VSlice); isSl && (sl.Nil || sl.Len == 0) {
				// empty bytes decode to the zero message
				return nilErr
			}
			panic(codecConfusion{Site: p.where(), Msg: "raw (non-codec) bytes decoded with codec.Unmarshal"})
		}
		iv := a[2].(VIface)
		ptr := iv.Val.(VPtr)
		et := iv.Ty.(*types.Pointer).Elem()
		if !types.Identical(et, bl.Ty) {
			panic(codecConfusion{Site: p.where(), Msg: fmt.Sprintf("value stored as %v decoded as %v", bl.Ty, et)})
		}
		// gogoproto Unmarshal does not reset the target: it MERGES the decoded message into it
		// (proto3 scalars equal to their zero value are not on the wire and leave the old field,
		// repeated fields are appended). For a fresh zero target this is plain assignment.
		ptr.store(mergeProto(ptr.load(), bl.Val))
		return nilErr
	}
	in[BC+"MustUnmarshal"] = func(p *Path, a []Value) Value { unmarshal(p, a); return nil }
	in[BC+"Unmarshal"] = unmarshal
	in[rtPkgPath+".Codec"] = func(p *Path, a []Value) Value { return VIface{Ty: types.Typ[types.Int], Val: VOpaque{"codec"}} }

	// store key objects
	in["github.com/cosmos/cosmos-sdk/store/types.NewKVStoreKey"] = func(p *Path, a []Value) Value {
		name := cStr(a[0], "store key name")
		return VPtr{Obj: p.newObj(&VStruct{F: []Value{VStr{StrC(name)}}}, "storekey:"+name)}
	}
	in["(*github.com/cosmos/cosmos-sdk/store/types.KVStoreKey).Name"] = func(p *Path, a []Value) Value {
		return a[0].(VPtr).load().(*VStruct).F[0]
	}
	in["(*github.com/cosmos/cosmos-sdk/store/types.KVStoreKey).String"] = func(p *Path, a []Value) Value {
		return a[0].(VPtr).load().(*VStruct).F[0]
	}

	in["github.com/cosmos/cosmos-sdk/types/kv.AssertKeyAtLeastLength"] = func(p *Path, a []Value) Value {
		sl := a[0].(VSlice)
		n := p.concreteInt(a[1], "AssertKeyAtLeastLength")
		if sl.Len < n {
			p.goPanicf("expected key of length at least %d, got %d", n, sl.Len)
		}
		return nil
	}
	in["github.com/cosmos/cosmos-sdk/types/kv.AssertKeyLength"] = func(p *Path, a []Value) Value {
		sl := a[0].(VSlice)
		n := p.concreteInt(a[1], "AssertKeyLength")
		if sl.Len != n {
			p.goPanicf("unexpected key length; got: %d, expected: %d", sl.Len, n)
		}
		return nil
	}
	// authz.NewMsgExec packs the inner messages into protobuf Any values; the repository's ante
	// code only looks at the dynamic type of a message, so the wrapper is modelled as a MsgExec
	// value with the grantee set and an opaque message list.
	in["github.com/cosmos/cosmos-sdk/x/authz.NewMsgExec"] = func(p *Path, a []Value) Value {
		pk := p.eng.ssaPkg("github.com/cosmos/cosmos-sdk/x/authz")
		mt := pk.Type("MsgExec").Type()
		st := mt.Underlying().(*types.Struct)
		hv := zeroValue(mt).(*VStruct)
		fs := make([]Value, len(hv.F))
		copy(fs, hv.F)
		for i := 0; i < st.NumFields(); i++ {
			if st.Field(i).Name() == "Grantee" {
				fs[i] = in["(github.com/cosmos/cosmos-sdk/types.AccAddress).String"](p, []Value{a[0]})
			}
		}
		return &VStruct{F: fs}
	}
	in["github.com/cosmos/cosmos-sdk/store/types.PrefixEndBytes"] = func(p *Path, a []Value) Value { return p.prefixEndBytes(a[0]) }
	in["github.com/cosmos/cosmos-sdk/types.PrefixEndBytes"] = func(p *Path, a []Value) Value { return p.prefixEndBytes(a[0]) }
	in["github.com/cosmos/gogoproto/proto.EnumName"] = func(p *Path, a []Value) Value {
		// EnumName(m map[int32]string, v int32): m[v] if present, else the decimal value
		m, ok := a[0].(VMap)
		v := tInt(a[1])
		c, isC := v.ConstInt()
		if !ok || m.Nil || !isC {
			return VStr{p.opaqueString()}
		}
		for _, e := range m.Obj.V.(*VMapData).E {
			if kc, ok := e.K.(VInt).T.ConstInt(); ok && kc.Cmp(c) == 0 {
				return e.V
			}
		}
		return VStr{StrC(c.String())}
	}
	_ = fmt.Sprint
}

var ctxTypeCache types.Type

func ctxType(e *Engine) types.Type {
	if ctxTypeCache != nil {
		return ctxTypeCache
	}
	pk := e.ssaPkg("github.com/cosmos/cosmos-sdk/types")
	ctxTypeCache = pk.Type("Context").Type()
	return ctxTypeCache
}

func (e *Engine) lookupMethodByName(dyn types.Type, name string) *ssa.Function {
	e.msMu.Lock()
	defer e.msMu.Unlock()
	ms := e.prog.MethodSets.MethodSet(dyn)
	for i := 0; i < ms.Len(); i++ {
		if ms.At(i).Obj().Name() == name {
			return e.prog.MethodValue(ms.At(i))
		}
	}
	return nil
}

// checkMarshalTimes: gogoproto StdTimeMarshal rejects times outside years 1..9999.
func (p *Path) checkMarshalTimes(v Value) {
	switch x := v.(type) {
	case VTime:
		ok := And(Ge(x.Sec, IntC(unixZeroTimeSec)), Le(x.Sec, IntC64(253402300799)))
		if !p.Decide(ok) {
			p.goPanicf("proto: time out of range for marshalling (year outside 1..9999)")
		}
	case *VStruct:
		for _, f := range x.F {
			p.checkMarshalTimes(f)
		}
	}
}

// prefixEndBytes implements store/types.PrefixEndBytes exactly (increment the byte string as a
// big-endian number, dropping trailing 0xff bytes; nil when all bytes are 0xff or the prefix is
// empty), but keeps runs of 8 bytes that stem from one uint64 together (v -> v+1) so that later
// key comparisons stay word-level instead of byte-level.
func (p *Path) prefixEndBytes(v Value) Value {
	sl, ok := v.(VSlice)
	if !ok {
		panic(engErr("PrefixEndBytes on %T", v))
	}
	if sl.Nil || sl.Len == 0 {
		return VSlice{Nil: true}
	}
	ts, _ := byteTerms(sl)
	n := len(ts)
	for n > 0 {
		if n >= 8 {
			gs := groupBytes(ts[n-8 : n])
			if len(gs) == 1 && gs[0].width == 8 {
				src := gs[0].t
				if p.Decide(Lt(src, IntC(IntTy{64, false}.Max()))) {
					nv := Add(src, IntC64(1))
					nv.lo, nv.hi = bi(1), IntTy{64, false}.Max()
					es := make([]Value, n)
					for i := 0; i < n-8; i++ {
						es[i] = VInt{ts[i]}
					}
					for i := 0; i < 8; i++ {
						es[n-8+i] = VInt{ByteOf(nv, 7-i)}
					}
					return VSlice{Obj: p.newObj(&VArray{E: es}, "prefixEnd"), Len: n, Cap: n}
				}
				n -= 8
				continue
			}
		}
		b := ts[n-1]
		if p.Decide(Not(Eq(b, IntC64(255)))) {
			es := make([]Value, n)
			for i := 0; i < n-1; i++ {
				es[i] = VInt{ts[i]}
			}
			nb := Add(b, IntC64(1))
			es[n-1] = VInt{nb}
			return VSlice{Obj: p.newObj(&VArray{E: es}, "prefixEnd"), Len: n, Cap: n}
		}
		n--
	}
	return VSlice{Nil: true}
}

func isZeroVal(v Value) bool {
	switch x := v.(type) {
	case VInt:
		c, ok := x.T.ConstInt()
		return ok && c.Sign() == 0
	case VBool:
		b, ok := x.T.ConstBool()
		return ok && !b
	case VStr:
		s, ok := x.T.ConstStr()
		return ok && s == ""
	case VBig:
		return x.Nil
	case VDec:
		return x.Nil
	case VTime:
		c, ok := x.Sec.ConstInt()
		n, ok2 := x.Nsec.ConstInt()
		return ok && ok2 && c.Cmp(unixZeroTimeSec) == 0 && n.Sign() == 0
	case VSlice:
		return x.Nil || x.Len == 0
	case VPtr:
		return x.Nil
	case VIface:
		return x.Ty == nil
	case *VStruct:
		for _, f := range x.F {
			if !isZeroVal(f) {
				return false
			}
		}
		return true
	case *VArray:
		for _, f := range x.E {
			if !isZeroVal(f) {
				return false
			}
		}
		return true
	}
	return false
}

// mergeProto: result of unmarshalling a message with decoded value nv into a target holding old.
// resolveCells: deep copy of a value with every math.Int read through its cell and detached from
// it (what Marshal writes are bytes: later in-place changes of the big.Int do not reach them).
func resolveCells(v Value) Value {
	switch x := v.(type) {
	case VBig:
		c := x.cur()
		c.Cell = nil
		return c
	case *VStruct:
		fs := make([]Value, len(x.F))
		for i := range fs {
			fs[i] = resolveCells(x.F[i])
		}
		return &VStruct{F: fs}
	case VSlice:
		if x.Nil || x.Len == 0 {
			return x
		}
		es := x.elems()
		out := make([]Value, len(es))
		for i := range es {
			out[i] = resolveCells(es[i])
		}
		return VSlice{Obj: &Obj{V: &VArray{E: out}, label: "marshalled-repeated"}, Len: len(out), Cap: len(out)}
	}
	return v
}

// mergeProto decodes nv (a cell-free message value from a blob) into the target's old value.
func mergeProto(old, nv Value) Value {
	if nb, ok := nv.(VBig); ok {
		// math.Int.Unmarshal: allocate a big.Int only if the target has none, then set it in place
		if ob, ok := old.(VBig); ok && !ob.Nil && ob.Cell != nil && !nb.Nil {
			ob.Cell.T = nb.T
			return VBig{T: nb.T, Cell: ob.Cell}
		}
		if nb.Nil {
			return nb
		}
		return VBig{T: nb.T, Cell: &bigCell{T: nb.T}}
	}
	if isZeroVal(old) {
		return freshDecode(nv) // fresh target: plain assignment, every math.Int gets its own big.Int
	}
	switch n := nv.(type) {
	case VInt:
		if o, ok := old.(VInt); ok {
			return VInt{Ite(Eq(n.T, IntC64(0)), o.T, n.T)}
		}
	case VBool:
		if o, ok := old.(VBool); ok {
			return VBool{Or(o.T, n.T)}
		}
	case VStr:
		if o, ok := old.(VStr); ok {
			return VStr{Ite(Eq(n.T, StrC("")), o.T, n.T)}
		}
	case *VStruct:
		if o, ok := old.(*VStruct); ok && len(o.F) == len(n.F) {
			fs := make([]Value, len(n.F))
			for i := range fs {
				fs[i] = mergeProto(o.F[i], n.F[i])
			}
			return &VStruct{F: fs}
		}
	case VSlice:
		if o, ok := old.(VSlice); ok {
			if n.Nil || n.Len == 0 {
				return o
			}
			es := append([]Value{}, o.elems()...)
			for _, e := range n.elems() {
				es = append(es, freshDecode(e))
			}
			return VSlice{Obj: &Obj{V: &VArray{E: es}, label: "merged-repeated"}, Len: len(es), Cap: len(es)}
		}
	case VPtr:
		if n.Nil {
			return old
		}
	}
	// custom types (math.Int/Dec), times: always present on the wire -> replaced
	return nv
}

// freshDecode: nv decoded into a zero target — the same value, with a newly allocated big.Int
// (cell) behind every non-nil math.Int.
func freshDecode(nv Value) Value {
	switch n := nv.(type) {
	case VBig:
		if n.Nil {
			return n
		}
		return VBig{T: n.T, Cell: &bigCell{T: n.T}}
	case *VStruct:
		fs := make([]Value, len(n.F))
		for i := range fs {
			fs[i] = freshDecode(n.F[i])
		}
		return &VStruct{F: fs}
	case VSlice:
		if n.Nil || n.Len == 0 {
			return nv
		}
		es := n.elems()
		out := make([]Value, len(es))
		for i := range es {
			out[i] = freshDecode(es[i])
		}
		return VSlice{Obj: &Obj{V: &VArray{E: out}, label: "decoded-repeated"}, Len: len(out), Cap: len(out)}
	}
	return nv
}
