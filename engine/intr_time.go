package main

import "math/big"

var nsPerSec = big.NewInt(1000000000)

func time_(v Value) VTime {
	switch x := v.(type) {
	case VTime:
		return x
	case VPtr:
		return x.load().(VTime)
	}
	panic(engErr("expected time.Time, got %T", v))
}

func registerTime(e *Engine) {
	in := e.intrinsics
	const T = "(time.Time)."
	i64 := IntTy{64, true}

	in["time.Now"] = func(p *Path, a []Value) Value {
		p.hr.noteNondet("time.Now() in " + p.where())
		p.nfresh++
		sec := p.freshInt("wallclock_sec", big.NewInt(0), big.NewInt(253402300799))
		nsec := p.freshInt("wallclock_nsec", bi(0), bi(999999999))
		p.envVars = append(p.envVars, sec, nsec)
		return VTime{Sec: sec, Nsec: nsec}
	}
	in["time.Unix"] = func(p *Path, a []Value) Value {
		sec, nsec := tInt(a[0]), tInt(a[1])
		// normalise nsec into [0, 1e9)
		if c, ok := nsec.ConstInt(); ok && c.Sign() >= 0 && c.Cmp(nsPerSec) < 0 {
			return VTime{Sec: sec, Nsec: nsec}
		}
		q := Div(nsec, IntC(nsPerSec)) // floor
		r := Mod(nsec, IntC(nsPerSec))
		return VTime{Sec: Add(sec, q), Nsec: r}
	}
	in[T+"UTC"] = func(p *Path, a []Value) Value { return time_(a[0]) }
	in[T+"Local"] = func(p *Path, a []Value) Value { return time_(a[0]) }
	in[T+"Round"] = func(p *Path, a []Value) Value { return time_(a[0]) }
	in[T+"Unix"] = func(p *Path, a []Value) Value { return VInt{time_(a[0]).Sec} }
	in[T+"Nanosecond"] = func(p *Path, a []Value) Value { return VInt{time_(a[0]).Nsec} }
	in[T+"UnixNano"] = func(p *Path, a []Value) Value {
		t := time_(a[0])
		return VInt{i64.Wrap(Add(Mul(t.Sec, IntC(nsPerSec)), t.Nsec))}
	}
	in[T+"IsZero"] = func(p *Path, a []Value) Value {
		t := time_(a[0])
		return VBool{And(Eq(t.Sec, IntC(unixZeroTimeSec)), Eq(t.Nsec, IntC64(0)))}
	}
	before := func(t, u VTime) *Term {
		return Or(Lt(t.Sec, u.Sec), And(Eq(t.Sec, u.Sec), Lt(t.Nsec, u.Nsec)))
	}
	in[T+"Before"] = func(p *Path, a []Value) Value { return VBool{before(time_(a[0]), time_(a[1]))} }
	in[T+"After"] = func(p *Path, a []Value) Value { return VBool{before(time_(a[1]), time_(a[0]))} }
	in[T+"Equal"] = func(p *Path, a []Value) Value {
		t, u := time_(a[0]), time_(a[1])
		return VBool{And(Eq(t.Sec, u.Sec), Eq(t.Nsec, u.Nsec))}
	}
	in[T+"Compare"] = func(p *Path, a []Value) Value {
		t, u := time_(a[0]), time_(a[1])
		return VInt{Ite(before(t, u), IntC64(-1), Ite(before(u, t), IntC64(1), IntC64(0)))}
	}
	// Add: dsec := d / 1e9 (truncated); nsec := t.nsec + d % 1e9; carry/borrow. The internal
	// seconds counter saturates only beyond ±2^63 s, unreachable from years 1..9999 ± 292 y.
	in[T+"Add"] = func(p *Path, a []Value) Value {
		t := time_(a[0])
		d := tInt(a[1])
		dsec := GoQuo(d, IntC(nsPerSec))
		dn := GoRem(d, IntC(nsPerSec))
		n := Add(t.Nsec, dn)
		if c, ok := n.ConstInt(); ok {
			s := Add(t.Sec, dsec)
			switch {
			case c.Cmp(nsPerSec) >= 0:
				return VTime{Sec: Add(s, IntC64(1)), Nsec: IntC(new(big.Int).Sub(c, nsPerSec))}
			case c.Sign() < 0:
				return VTime{Sec: Sub(s, IntC64(1)), Nsec: IntC(new(big.Int).Add(c, nsPerSec))}
			}
			return VTime{Sec: s, Nsec: n}
		}
		over := Ge(n, IntC(nsPerSec))
		under := Lt(n, IntC64(0))
		sec := Add(Add(t.Sec, dsec), Ite(over, IntC64(1), Ite(under, IntC64(-1), IntC64(0))))
		nn := Ite(over, Sub(n, IntC(nsPerSec)), Ite(under, Add(n, IntC(nsPerSec)), n))
		nn.lo, nn.hi = bi(0), bi(999999999)
		return VTime{Sec: sec, Nsec: nn}
	}
	// Sub: exact difference in ns if it fits an int64 Duration, else saturates (min/max).
	in[T+"Sub"] = func(p *Path, a []Value) Value {
		t, u := time_(a[0]), time_(a[1])
		D := Add(Mul(Sub(t.Sec, u.Sec), IntC(nsPerSec)), Sub(t.Nsec, u.Nsec))
		if i64.InRange(D) {
			return VInt{D}
		}
		r := Ite(Gt(D, IntC(i64.Max())), IntC(i64.Max()), Ite(Lt(D, IntC(i64.Min())), IntC(i64.Min()), D))
		r.lo, r.hi = i64.Min(), i64.Max()
		return VInt{r}
	}
	in["time.Since"] = func(p *Path, a []Value) Value {
		p.hr.noteNondet("time.Since() in " + p.where())
		d := p.freshInt("wallclock_dur", bi(0), i64.Max())
		p.envVars = append(p.envVars, d)
		return VInt{d}
	}
	in[T+"String"] = func(p *Path, a []Value) Value { return VStr{p.opaqueString()} }
	in[T+"Format"] = func(p *Path, a []Value) Value { return VStr{p.opaqueString()} }
	// Duration.Seconds: float64(sec) + float64(nsec)/1e9
	in["(time.Duration).Seconds"] = func(p *Path, a []Value) Value {
		d := tInt(a[0])
		sec := GoQuo(d, IntC(nsPerSec))
		nsec := GoRem(d, IntC(nsPerSec))
		if c, ok := d.ConstInt(); ok {
			_ = c
		}
		f := fpBin("fp.add", intToFP(sec, i64), fpBin("fp.div", intToFP(nsec, i64), fpConst(1e9)))
		return VFloat{T: f, Dur: d}
	}
	in["(time.Duration).String"] = func(p *Path, a []Value) Value { return VStr{p.opaqueString()} }
}
