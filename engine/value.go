package main

import (
	"fmt"
	"go/types"
	"math/big"

	"golang.org/x/tools/go/ssa"
)

type Value interface{}

type VInt struct{ T *Term }   // Go integer of any width (range invariant maintained by ops)
type VBool struct{ T *Term }  // bool
type VStr struct{ T *Term }   // string
type VFloat struct {
	T   *Term
	Dur *Term // set when the value is time.Duration(Dur).Seconds(): enables the exact integer encoding of int64(x)
}
type VBig struct { // cosmossdk.io/math.Int (also Uint)
	Nil bool
	T   *Term
	// Cell: the *big.Int behind a math.Int that was filled by Unmarshal. math.Int is a struct
	// holding a pointer, so copies of the struct share the big.Int, and gogoproto's Unmarshal
	// writes INTO an already allocated big.Int instead of replacing it: decoding a second message
	// into the same variable changes every earlier copy. Values with a cell are read through it.
	Cell *bigCell
}
type bigCell struct{ T *Term }

// cur: the value as it is now (through the shared cell, if any).
func (b VBig) cur() VBig {
	if b.Cell != nil && !b.Nil {
		return VBig{T: b.Cell.T, Cell: b.Cell}
	}
	return b
}

// bigT: current numeric term of a math.Int value.
func bigT(v Value) *Term { return v.(VBig).cur().T }
type VDec struct { // cosmossdk.io/math.LegacyDec: raw = value * 10^18
	Nil bool
	T   *Term
	// algebraic provenance used to simplify nested floor divisions exactly:
	IntPart *Term // raw == IntPart * 10^18
	QuoA    *Term // raw == floor(QuoA * 10^18 / QuoB), QuoA >= 0, QuoB > 0
	QuoB    *Term
}
type VTime struct { // time.Time as unix seconds + nanoseconds (UTC, no monotonic reading)
	Sec  *Term
	Nsec *Term
}
type VStruct struct{ F []Value }
type VArray struct{ E []Value }
type VTuple struct{ E []Value }

// Obj is a mutable heap cell (path-local; paths are re-executed from scratch).
type Obj struct {
	V      Value
	id     int
	frozen bool // shared across paths (package-level initial data): writes are engine errors
	global bool // the cell of a package-level variable
	label  string
}

type VPtr struct {
	Obj  *Obj
	Path []int // field / index path inside Obj.V
	Nil  bool
}

type VSlice struct {
	Obj *Obj // Obj.V is *VArray
	Off int
	Len int
	Cap int
	Nil bool
}

// VBlob is an opaque marshalled value (result of codec Marshal); appears where []byte is expected.
type VBlob struct {
	Val Value
	Ty  types.Type
	Len *Term
}

type VIface struct {
	Ty  types.Type // dynamic type; nil => nil interface
	Val Value
}

type VFunc struct {
	Fn       *ssa.Function
	Bindings []Value
	Builtin  string   // intrinsic by name (no body)
	Recv     Value    // bound receiver for bound-method closures on interfaces
	Method   *types.Func
	Nil      bool
}

type mapEntry struct {
	K Value
	V Value
}
type VMapData struct{ E []mapEntry }
type VMap struct {
	Obj *Obj // Obj.V is *VMapData
	Nil bool
}

// VCtx models sdk.Context.
type VCtx struct {
	MS       Value // MultiStore interface value (model)
	Time     VTime
	Height   *Term
	CheckTx  *Term
	ReCheck  *Term
	ChainID  *Term
	Valid    bool
}

// VOpaque is a value the engine cannot interpret (tolerant init evaluation, loggers...).
type VOpaque struct{ What string }

// VErrTok: registered sdk error (root) — codespace/code/desc
type VErr struct {
	Root string // identity of root error ("codespace/code") or description
	Msg  string
}

// map iterator
type VIter struct {
	Entries []mapEntry
	Pos     int
	Str     *VStr
	IsStr   bool
}

type engineErr struct{ msg string }

func (e engineErr) Error() string { return "ENGINE: " + e.msg }

func engErr(format string, a ...interface{}) engineErr {
	return engineErr{fmt.Sprintf(format, a...)}
}

// ---------- type classification ----------

func namedPath(t types.Type) (string, string) {
	t = types.Unalias(t)
	if n, ok := t.(*types.Named); ok {
		o := n.Obj()
		if o.Pkg() != nil {
			return o.Pkg().Path(), o.Name()
		}
		return "", o.Name()
	}
	return "", ""
}

type special int

const (
	spNone special = iota
	spBig
	spDec
	spTime
	spCtx
	spUint
)

func specialOf(t types.Type) special {
	p, n := namedPath(t)
	switch p {
	case "cosmossdk.io/math":
		switch n {
		case "Int":
			return spBig
		case "LegacyDec":
			return spDec
		case "Uint":
			return spUint
		}
	case "time":
		if n == "Time" {
			return spTime
		}
	case "github.com/cosmos/cosmos-sdk/types":
		if n == "Context" {
			return spCtx
		}
	}
	return spNone
}

func intTyOf(t types.Type) (IntTy, bool) {
	b, ok := t.Underlying().(*types.Basic)
	if !ok {
		return IntTy{}, false
	}
	switch b.Kind() {
	case types.Int, types.Int64, types.UntypedInt:
		return IntTy{64, true}, true
	case types.Int32, types.UntypedRune:
		return IntTy{32, true}, true
	case types.Int16:
		return IntTy{16, true}, true
	case types.Int8:
		return IntTy{8, true}, true
	case types.Uint, types.Uint64, types.Uintptr:
		return IntTy{64, false}, true
	case types.Uint32:
		return IntTy{32, false}, true
	case types.Uint16:
		return IntTy{16, false}, true
	case types.Uint8:
		return IntTy{8, false}, true
	}
	return IntTy{}, false
}

var unixZeroTimeSec = big.NewInt(-62135596800) // time.Time{} in unix seconds

func zeroValue(t types.Type) Value {
	switch specialOf(t) {
	case spBig, spUint:
		return VBig{Nil: true}
	case spDec:
		return VDec{Nil: true}
	case spTime:
		return VTime{Sec: IntC(unixZeroTimeSec), Nsec: IntC64(0)}
	case spCtx:
		return VCtx{}
	}
	switch u := t.Underlying().(type) {
	case *types.Basic:
		switch {
		case u.Info()&types.IsBoolean != 0:
			return VBool{tFalse}
		case u.Info()&types.IsInteger != 0:
			return VInt{IntC64(0)}
		case u.Info()&types.IsString != 0:
			return VStr{StrC("")}
		case u.Info()&types.IsFloat != 0:
			return VFloat{T: fpConst(0)}
		case u.Kind() == types.UnsafePointer:
			return VPtr{Nil: true}
		case u.Kind() == types.UntypedNil:
			return VPtr{Nil: true}
		}
	case *types.Struct:
		fs := make([]Value, u.NumFields())
		for i := range fs {
			fs[i] = zeroValue(u.Field(i).Type())
		}
		return &VStruct{F: fs}
	case *types.Array:
		n := int(u.Len())
		es := make([]Value, n)
		z := zeroValue(u.Elem())
		for i := range es {
			es[i] = z
		}
		return &VArray{E: es}
	case *types.Pointer:
		return VPtr{Nil: true}
	case *types.Slice:
		return VSlice{Nil: true}
	case *types.Map:
		return VMap{Nil: true}
	case *types.Interface:
		return VIface{}
	case *types.Signature:
		return VFunc{Nil: true}
	case *types.Chan:
		return VOpaque{"chan"}
	case *types.Tuple:
		es := make([]Value, u.Len())
		for i := range es {
			es[i] = zeroValue(u.At(i).Type())
		}
		return VTuple{E: es}
	case *types.TypeParam:
		panic(engErr("zero value of type parameter %v", t))
	}
	panic(engErr("zeroValue: unsupported type %v", t))
}

func fpConst(f float64) *Term {
	// exact hex-bit rendering of a float64 constant
	bits := mathFloat64bits(f)
	return &Term{op: "c", sort: SFP, sv: fmt.Sprintf("(fp #b%01b #b%011b #b%052b)", bits>>63, (bits>>52)&0x7ff, bits&((1<<52)-1)), size: 1, name: fmt.Sprint(f)}
}

// ---------- path get/set inside immutable values ----------

func getPath(v Value, path []int) Value {
	for _, i := range path {
		switch x := v.(type) {
		case *VStruct:
			v = x.F[i]
		case *VArray:
			if i < 0 || i >= len(x.E) {
				panic(engErr("getPath: index %d out of range %d", i, len(x.E)))
			}
			v = x.E[i]
		default:
			panic(engErr("getPath: cannot descend into %T", v))
		}
	}
	return v
}

func setPath(v Value, path []int, nv Value) Value {
	if len(path) == 0 {
		return nv
	}
	i := path[0]
	switch x := v.(type) {
	case *VStruct:
		fs := make([]Value, len(x.F))
		copy(fs, x.F)
		fs[i] = setPath(x.F[i], path[1:], nv)
		return &VStruct{F: fs}
	case *VArray:
		if i < 0 || i >= len(x.E) {
			panic(engErr("setPath: index %d out of range %d", i, len(x.E)))
		}
		es := make([]Value, len(x.E))
		copy(es, x.E)
		es[i] = setPath(x.E[i], path[1:], nv)
		return &VArray{E: es}
	}
	panic(engErr("setPath: cannot descend into %T", v))
}

func (p VPtr) load() Value {
	if p.Nil || p.Obj == nil {
		panic(engErr("load through nil pointer (unchecked)"))
	}
	return getPath(p.Obj.V, p.Path)
}

func (p VPtr) store(v Value) {
	if p.Nil || p.Obj == nil {
		panic(engErr("store through nil pointer (unchecked)"))
	}
	if p.Obj.frozen {
		panic(engErr("store to shared package-level object %s", p.Obj.label))
	}
	p.Obj.V = setPath(p.Obj.V, p.Path, v)
}

func appendPath(p []int, i int) []int {
	np := make([]int, len(p)+1)
	copy(np, p)
	np[len(p)] = i
	return np
}

func (s VSlice) elems() []Value {
	if s.Nil || s.Obj == nil {
		return nil
	}
	return s.Obj.V.(*VArray).E[s.Off : s.Off+s.Len]
}

func describe(v Value) string {
	switch x := v.(type) {
	case VInt:
		return "int:" + termStr(x.T)
	case VBool:
		return "bool:" + termStr(x.T)
	case VStr:
		return "str:" + termStr(x.T)
	case VBig:
		if x.Nil {
			return "Int(nil)"
		}
		return "Int:" + termStr(x.T)
	}
	return fmt.Sprintf("%T", v)
}

func termStr(t *Term) string {
	r := NewRenderer(func(string) {})
	s := r.Render(t)
	if len(s) > 120 {
		s = s[:120] + "..."
	}
	return s
}
