package main

// SMT term layer: mathematical Int / Bool / String / FP64 terms with constant folding,
// interval tracking (for eliding wrap-arounds) and DAG-aware rendering.

import (
	"crypto/sha256"
	"fmt"
	"math/big"
	"strconv"
	"strings"
)

type Sort int

const (
	SBool Sort = iota
	SInt
	SStr
	SFP
	SBV
)

func (s Sort) String() string {
	switch s {
	case SBool:
		return "Bool"
	case SInt:
		return "Int"
	case SStr:
		return "String"
	case SFP:
		return "(_ FloatingPoint 11 53)"
	case SBV:
		return "(_ BitVec 64)"
	}
	return "?"
}

type Term struct {
	op   string // "c" const, "v" variable, else SMT operator
	sort Sort
	args []*Term
	iv   *big.Int
	bv   bool
	sv   string
	name string
	lo   *big.Int // interval (SInt only); nil = unbounded
	hi   *big.Int
	size int
	// byteOf: this term is byte k (0 = least significant) of src (a 64-bit unsigned value)
	byteSrc *Term
	byteIdx int
}

var (
	tTrue  = &Term{op: "c", sort: SBool, bv: true, size: 1}
	tFalse = &Term{op: "c", sort: SBool, bv: false, size: 1}
)

func bi(n int64) *big.Int { return big.NewInt(n) }
func pow2(n uint) *big.Int { return new(big.Int).Lsh(big.NewInt(1), n) }

func IntC(n *big.Int) *Term {
	v := new(big.Int).Set(n)
	return &Term{op: "c", sort: SInt, iv: v, lo: v, hi: v, size: 1}
}
func IntC64(n int64) *Term { return IntC(big.NewInt(n)) }
func BoolC(b bool) *Term {
	if b {
		return tTrue
	}
	return tFalse
}
func StrC(s string) *Term { return &Term{op: "c", sort: SStr, sv: s, size: 1} }

func Var(name string, s Sort) *Term { return &Term{op: "v", sort: s, name: name, size: 1} }
func IntVar(name string, lo, hi *big.Int) *Term {
	return &Term{op: "v", sort: SInt, name: name, lo: lo, hi: hi, size: 1}
}

func (t *Term) IsConst() bool { return t.op == "c" }
func (t *Term) ConstInt() (*big.Int, bool) {
	if t.op == "c" && t.sort == SInt {
		return t.iv, true
	}
	return nil, false
}
func (t *Term) ConstBool() (bool, bool) {
	if t.op == "c" && t.sort == SBool {
		return t.bv, true
	}
	return false, false
}
func (t *Term) ConstStr() (string, bool) {
	if t.op == "c" && t.sort == SStr {
		return t.sv, true
	}
	return "", false
}

func mk(op string, s Sort, args ...*Term) *Term {
	sz := 1
	for _, a := range args {
		sz += a.size
		if sz > 1<<30 {
			sz = 1 << 30
		}
	}
	return &Term{op: op, sort: s, args: args, size: sz}
}

func sameTerm(a, b *Term) bool {
	if a == b {
		return true
	}
	if a.op != b.op || a.sort != b.sort {
		return false
	}
	switch a.op {
	case "c":
		switch a.sort {
		case SInt:
			return a.iv.Cmp(b.iv) == 0
		case SBool:
			return a.bv == b.bv
		case SStr:
			return a.sv == b.sv
		}
		return false
	case "v":
		return a.name == b.name
	}
	if len(a.args) != len(b.args) || a.size != b.size || a.size > 40 {
		return false
	}
	for i := range a.args {
		if !sameTerm(a.args[i], b.args[i]) {
			return false
		}
	}
	return a.name == b.name
}

// ---------- integer ops ----------

func addB(a, b *big.Int) *big.Int {
	if a == nil || b == nil {
		return nil
	}
	return new(big.Int).Add(a, b)
}
func subB(a, b *big.Int) *big.Int {
	if a == nil || b == nil {
		return nil
	}
	return new(big.Int).Sub(a, b)
}
func minB(xs ...*big.Int) *big.Int {
	var m *big.Int
	for _, x := range xs {
		if x == nil {
			return nil
		}
		if m == nil || x.Cmp(m) < 0 {
			m = x
		}
	}
	return m
}
func maxB(xs ...*big.Int) *big.Int {
	var m *big.Int
	for _, x := range xs {
		if x == nil {
			return nil
		}
		if m == nil || x.Cmp(m) > 0 {
			m = x
		}
	}
	return m
}

func Add(a, b *Term) *Term {
	if x, ok := a.ConstInt(); ok {
		if y, ok := b.ConstInt(); ok {
			return IntC(new(big.Int).Add(x, y))
		}
		if x.Sign() == 0 {
			return b
		}
	}
	if y, ok := b.ConstInt(); ok && y.Sign() == 0 {
		return a
	}
	// (x + c1) + c2
	if y, ok := b.ConstInt(); ok && a.op == "+" && len(a.args) == 2 {
		if c1, ok := a.args[1].ConstInt(); ok {
			return Add(a.args[0], IntC(new(big.Int).Add(c1, y)))
		}
	}
	t := mk("+", SInt, a, b)
	t.lo, t.hi = addB(a.lo, b.lo), addB(a.hi, b.hi)
	return t
}

func Neg(a *Term) *Term {
	if x, ok := a.ConstInt(); ok {
		return IntC(new(big.Int).Neg(x))
	}
	t := mk("-", SInt, a)
	if a.hi != nil {
		t.lo = new(big.Int).Neg(a.hi)
	}
	if a.lo != nil {
		t.hi = new(big.Int).Neg(a.lo)
	}
	return t
}

func Sub(a, b *Term) *Term {
	if y, ok := b.ConstInt(); ok {
		return Add(a, IntC(new(big.Int).Neg(y)))
	}
	if sameTerm(a, b) {
		return IntC64(0)
	}
	t := mk("-", SInt, a, b)
	t.lo, t.hi = subB(a.lo, b.hi), subB(a.hi, b.lo)
	return t
}

func Mul(a, b *Term) *Term {
	if x, ok := a.ConstInt(); ok {
		if y, ok := b.ConstInt(); ok {
			return IntC(new(big.Int).Mul(x, y))
		}
		a, b = b, a
	}
	if y, ok := b.ConstInt(); ok {
		if y.Sign() == 0 {
			return IntC64(0)
		}
		if y.Cmp(bi(1)) == 0 {
			return a
		}
	}
	op := "*"
	if _, ok := b.ConstInt(); !ok {
		// non-linear product: rendered through `nlmul`, which the exact solvers define as
		// multiplication and the abstraction solver leaves uninterpreted
		op = "nlmul"
	}
	t := mk(op, SInt, a, b)
	if a.lo != nil && a.hi != nil && b.lo != nil && b.hi != nil {
		p1 := new(big.Int).Mul(a.lo, b.lo)
		p2 := new(big.Int).Mul(a.lo, b.hi)
		p3 := new(big.Int).Mul(a.hi, b.lo)
		p4 := new(big.Int).Mul(a.hi, b.hi)
		t.lo, t.hi = minB(p1, p2, p3, p4), maxB(p1, p2, p3, p4)
	}
	return t
}

// floorDiv/floorMod: SMT-LIB semantics (for positive divisor: floor)
func smtDivConst(x, y *big.Int) (*big.Int, *big.Int) {
	// SMT: x = y*q + r, 0 <= r < |y|
	q, r := new(big.Int).DivMod(x, y, new(big.Int)) // Euclidean division
	return q, r
}

func Div(a, b *Term) *Term { // SMT div (Euclidean)
	if y, ok := b.ConstInt(); ok && y.Sign() != 0 {
		if x, ok := a.ConstInt(); ok {
			q, _ := smtDivConst(x, y)
			return IntC(q)
		}
		if y.Cmp(bi(1)) == 0 {
			return a
		}
		t := mk("div", SInt, a, b)
		if y.Sign() > 0 && a.lo != nil && a.hi != nil {
			ql, _ := smtDivConst(a.lo, y)
			qh, _ := smtDivConst(a.hi, y)
			t.lo, t.hi = ql, qh
		}
		return t
	}
	// symbolic divisor: rendered through `nldiv` (defined as div for the exact solvers,
	// uninterpreted + lemmas for the abstraction solver)
	t := mk("nldiv", SInt, a, b)
	if a.lo != nil && a.lo.Sign() >= 0 && b.lo != nil && b.lo.Sign() > 0 {
		t.lo = bi(0)
		t.hi = a.hi
	}
	return t
}

func Mod(a, b *Term) *Term { // SMT mod (Euclidean, result >= 0)
	if y, ok := b.ConstInt(); ok && y.Sign() != 0 {
		if x, ok := a.ConstInt(); ok {
			_, r := smtDivConst(x, y)
			return IntC(r)
		}
		if y.Sign() > 0 && a.lo != nil && a.hi != nil && a.lo.Sign() >= 0 && a.hi.Cmp(y) < 0 {
			return a
		}
		t := mk("mod", SInt, a, b)
		t.lo = bi(0)
		t.hi = new(big.Int).Sub(new(big.Int).Abs(y), bi(1))
		return t
	}
	t := mk("mod", SInt, a, b)
	t.lo = bi(0)
	return t
}

func Ite(c, a, b *Term) *Term {
	if v, ok := c.ConstBool(); ok {
		if v {
			return a
		}
		return b
	}
	if sameTerm(a, b) {
		return a
	}
	if a.sort == SBool {
		if av, ok := a.ConstBool(); ok {
			if bv, ok := b.ConstBool(); ok {
				if av && !bv {
					return c
				}
				if !av && bv {
					return Not(c)
				}
			}
		}
	}
	t := mk("ite", a.sort, c, a, b)
	if a.sort == SInt {
		t.lo, t.hi = minB(a.lo, b.lo), maxB(a.hi, b.hi)
	}
	return t
}

// ---------- boolean ops ----------

func Not(a *Term) *Term {
	if v, ok := a.ConstBool(); ok {
		return BoolC(!v)
	}
	if a.op == "not" {
		return a.args[0]
	}
	return mk("not", SBool, a)
}

func And(xs ...*Term) *Term {
	var out []*Term
	for _, x := range xs {
		if v, ok := x.ConstBool(); ok {
			if !v {
				return tFalse
			}
			continue
		}
		if x.op == "and" {
			out = append(out, x.args...)
			continue
		}
		out = append(out, x)
	}
	if len(out) == 0 {
		return tTrue
	}
	if len(out) == 1 {
		return out[0]
	}
	return mk("and", SBool, out...)
}

func Or(xs ...*Term) *Term {
	var out []*Term
	for _, x := range xs {
		if v, ok := x.ConstBool(); ok {
			if v {
				return tTrue
			}
			continue
		}
		if x.op == "or" {
			out = append(out, x.args...)
			continue
		}
		out = append(out, x)
	}
	if len(out) == 0 {
		return tFalse
	}
	if len(out) == 1 {
		return out[0]
	}
	return mk("or", SBool, out...)
}

func Implies(a, b *Term) *Term { return Or(Not(a), b) }

func Eq(a, b *Term) *Term {
	if a.sort != b.sort {
		panic(engineErr{fmt.Sprintf("Eq sort mismatch %v %v", a.sort, b.sort)})
	}
	if a.IsConst() && b.IsConst() {
		return BoolC(sameTerm(a, b))
	}
	if sameTerm(a, b) && a.sort != SFP {
		return tTrue
	}
	if a.sort == SInt {
		// disjoint intervals
		if a.hi != nil && b.lo != nil && a.hi.Cmp(b.lo) < 0 {
			return tFalse
		}
		if b.hi != nil && a.lo != nil && b.hi.Cmp(a.lo) < 0 {
			return tFalse
		}
	}
	if a.sort == SBool {
		if v, ok := b.ConstBool(); ok {
			if v {
				return a
			}
			return Not(a)
		}
		if v, ok := a.ConstBool(); ok {
			if v {
				return b
			}
			return Not(b)
		}
	}
	if a.sort == SFP {
		return mk("fp.eq", SBool, a, b)
	}
	return mk("=", SBool, a, b)
}

func cmpFold(op string, a, b *Term) (*Term, bool) {
	x, ok1 := a.ConstInt()
	y, ok2 := b.ConstInt()
	if ok1 && ok2 {
		c := x.Cmp(y)
		switch op {
		case "<":
			return BoolC(c < 0), true
		case "<=":
			return BoolC(c <= 0), true
		}
	}
	// interval reasoning
	switch op {
	case "<":
		if a.hi != nil && b.lo != nil && a.hi.Cmp(b.lo) < 0 {
			return tTrue, true
		}
		if a.lo != nil && b.hi != nil && a.lo.Cmp(b.hi) >= 0 {
			return tFalse, true
		}
	case "<=":
		if a.hi != nil && b.lo != nil && a.hi.Cmp(b.lo) <= 0 {
			return tTrue, true
		}
		if a.lo != nil && b.hi != nil && a.lo.Cmp(b.hi) > 0 {
			return tFalse, true
		}
	}
	return nil, false
}

func Lt(a, b *Term) *Term {
	if t, ok := cmpFold("<", a, b); ok {
		return t
	}
	if sameTerm(a, b) {
		return tFalse
	}
	return mk("<", SBool, a, b)
}
func Le(a, b *Term) *Term {
	if t, ok := cmpFold("<=", a, b); ok {
		return t
	}
	if sameTerm(a, b) {
		return tTrue
	}
	return mk("<=", SBool, a, b)
}
func Gt(a, b *Term) *Term { return Lt(b, a) }
func Ge(a, b *Term) *Term { return Le(b, a) }

// ---------- strings ----------

func StrLen(a *Term) *Term {
	if s, ok := a.ConstStr(); ok {
		return IntC64(int64(len(s)))
	}
	t := mk("str.len", SInt, a)
	t.lo = bi(0)
	return t
}
func StrConcat(a, b *Term) *Term {
	if x, ok := a.ConstStr(); ok {
		if y, ok := b.ConstStr(); ok {
			return StrC(x + y)
		}
		if x == "" {
			return b
		}
	}
	if y, ok := b.ConstStr(); ok && y == "" {
		return a
	}
	return mk("str.++", SStr, a, b)
}
func StrLt(a, b *Term) *Term {
	if x, ok := a.ConstStr(); ok {
		if y, ok := b.ConstStr(); ok {
			return BoolC(x < y)
		}
	}
	return mk("str.<", SBool, a, b)
}

// uninterpreted function application
func App(fn string, s Sort, args ...*Term) *Term {
	t := mk("app", s, args...)
	t.name = fn
	return t
}

// ---------- Go integer typing helpers ----------

type IntTy struct {
	Bits   uint
	Signed bool
}

func (ty IntTy) Min() *big.Int {
	if !ty.Signed {
		return bi(0)
	}
	return new(big.Int).Neg(pow2(ty.Bits - 1))
}
func (ty IntTy) Max() *big.Int {
	if !ty.Signed {
		return new(big.Int).Sub(pow2(ty.Bits), bi(1))
	}
	return new(big.Int).Sub(pow2(ty.Bits-1), bi(1))
}

func (ty IntTy) InRange(t *Term) bool {
	return t.lo != nil && t.hi != nil && t.lo.Cmp(ty.Min()) >= 0 && t.hi.Cmp(ty.Max()) <= 0
}

// Wrap reduces a mathematical integer to the Go type's range (two's complement).
func (ty IntTy) Wrap(t *Term) *Term {
	if x, ok := t.ConstInt(); ok {
		m := pow2(ty.Bits)
		r := new(big.Int).Mod(x, m)
		if ty.Signed && r.Cmp(pow2(ty.Bits-1)) >= 0 {
			r.Sub(r, m)
		}
		return IntC(r)
	}
	if ty.InRange(t) {
		return t
	}
	m := pow2(ty.Bits)
	mn, mx := ty.Min(), ty.Max()
	var r *Term
	// within one wrap on each side: ite form (linear, no div)
	if t.lo != nil && t.hi != nil && t.lo.Cmp(new(big.Int).Sub(mn, m)) >= 0 && t.hi.Cmp(new(big.Int).Add(mx, m)) <= 0 {
		over := Gt(t, IntC(mx))
		under := Lt(t, IntC(mn))
		r = Ite(over, Sub(t, IntC(m)), Ite(under, Add(t, IntC(m)), t))
	} else if !ty.Signed {
		r = Mod(t, IntC(m))
	} else {
		half := pow2(ty.Bits - 1)
		r = Sub(Mod(Add(t, IntC(half)), IntC(m)), IntC(half))
	}
	r.lo, r.hi = mn, mx
	if t.lo != nil && t.lo.Cmp(mn) >= 0 && t.hi != nil && t.hi.Cmp(mx) <= 0 {
		r.lo, r.hi = t.lo, t.hi
	}
	return r
}

// Go truncated division for (possibly negative) operands, in terms of SMT Euclidean div.
func GoQuo(a, b *Term) *Term {
	if x, ok := a.ConstInt(); ok {
		if y, ok := b.ConstInt(); ok && y.Sign() != 0 {
			return IntC(new(big.Int).Quo(x, y))
		}
	}
	aNonNeg := a.lo != nil && a.lo.Sign() >= 0
	bPos := b.lo != nil && b.lo.Sign() > 0
	if aNonNeg && bPos {
		return Div(a, b)
	}
	// trunc(a/b) = sign * (|a| div |b|)
	absA := Ite(Ge(a, IntC64(0)), a, Neg(a))
	absB := Ite(Ge(b, IntC64(0)), b, Neg(b))
	q := Div(absA, absB)
	sameSign := Eq(Ge(a, IntC64(0)), Ge(b, IntC64(0)))
	return Ite(sameSign, q, Neg(q))
}

func GoRem(a, b *Term) *Term {
	if x, ok := a.ConstInt(); ok {
		if y, ok := b.ConstInt(); ok && y.Sign() != 0 {
			return IntC(new(big.Int).Rem(x, y))
		}
	}
	aNonNeg := a.lo != nil && a.lo.Sign() >= 0
	bPos := b.lo != nil && b.lo.Sign() > 0
	if aNonNeg && bPos {
		return Mod(a, b)
	}
	return Sub(a, Mul(GoQuo(a, b), b))
}

// ByteOf returns byte k (0 = least significant) of a non-negative 64-bit value.
func ByteOf(src *Term, k int) *Term {
	if x, ok := src.ConstInt(); ok {
		v := new(big.Int).Rsh(x, uint(8*k))
		v.And(v, bi(255))
		return IntC(v)
	}
	t := Mod(Div(src, IntC(pow2(uint(8*k)))), IntC64(256))
	if t.op != "c" {
		t.byteSrc = src
		t.byteIdx = k
	}
	return t
}

// ---------- rendering ----------

func smtInt(n *big.Int) string {
	if n.Sign() < 0 {
		return "(- " + new(big.Int).Neg(n).String() + ")"
	}
	return n.String()
}

func smtStr(s string) string {
	var sb strings.Builder
	sb.WriteByte('"')
	for i := 0; i < len(s); i++ {
		c := s[i]
		if c == '"' {
			sb.WriteString(`""`)
		} else if c < 0x20 || c > 0x7e || c == '\\' {
			sb.WriteString(`\u{` + strconv.FormatInt(int64(c), 16) + `}`)
		} else {
			sb.WriteByte(c)
		}
	}
	sb.WriteByte('"')
	return sb.String()
}

// Renderer renders terms, introducing define-funs for large shared nodes and declaring
// variables on first use. Emitted commands are appended through emit.
// thash is a structural hash of a term (collisions are negligible: 128 bits of SHA-256).
type thash [16]byte

// hasher memoises structural hashes per term pointer (one per solver session, so terms are
// never mutated and no synchronisation is needed).
type hasher struct{ memo map[*Term]thash }

func newHasher() *hasher { return &hasher{memo: map[*Term]thash{}} }

func (h *hasher) of(t *Term) thash {
	if v, ok := h.memo[t]; ok {
		return v
	}
	hs := sha256.New()
	hs.Write([]byte(t.op))
	hs.Write([]byte{0, byte(t.sort)})
	switch t.op {
	case "c":
		switch t.sort {
		case SInt:
			hs.Write([]byte(t.iv.String()))
		case SBool:
			if t.bv {
				hs.Write([]byte{1})
			} else {
				hs.Write([]byte{2})
			}
		default:
			hs.Write([]byte(t.sv))
		}
	case "v":
		hs.Write([]byte(t.name))
	default:
		hs.Write([]byte(t.name))
		hs.Write([]byte{0})
		for _, a := range t.args {
			c := h.of(a)
			hs.Write(c[:])
		}
	}
	var out thash
	copy(out[:], hs.Sum(nil))
	h.memo[t] = out
	return out
}

type Renderer struct {
	emit     func(cmd string)
	declared map[string]bool
	defs     map[thash]string
	ndef     int
	memo     map[thash]string
	sawNL    bool
	nls      []nlRec
	h        *hasher
}

type nlRec struct{ m, x, y string }

// nlLemmas asserts instances of valid facts about multiplication for the product m = x*y
// (sign rules, units, growth, and monotonicity against earlier products sharing a factor).
// They are tautologies for the exact solvers and make the uninterpreted abstraction useful.
func (r *Renderer) nlLemmas(m, x, y string) {
	a := func(f string, args ...interface{}) { r.emit("(assert " + fmt.Sprintf(f, args...) + ")") }
	a("(=> (and (>= %s 0) (>= %s 0)) (>= %s 0))", x, y, m)
	a("(=> (and (<= %s 0) (<= %s 0)) (>= %s 0))", x, y, m)
	a("(=> (and (>= %s 0) (<= %s 0)) (<= %s 0))", x, y, m)
	a("(=> (and (<= %s 0) (>= %s 0)) (<= %s 0))", x, y, m)
	a("(=> (= %s 0) (= %s 0))", x, m)
	a("(=> (= %s 0) (= %s 0))", y, m)
	a("(=> (= %s 1) (= %s %s))", x, m, y)
	a("(=> (= %s 1) (= %s %s))", y, m, x)
	a("(=> (and (>= %s 1) (>= %s 1)) (and (>= %s %s) (>= %s %s)))", x, y, m, x, m, y)
	a("(=> (and (> %s 0) (> %s 0)) (> %s 0))", x, y, m)
	for _, o := range r.nls {
		pairs := [][4]string{}
		if o.y == y {
			pairs = append(pairs, [4]string{o.x, x, y, o.m})
		}
		if o.x == x {
			pairs = append(pairs, [4]string{o.y, y, x, o.m})
		}
		if o.x == y {
			pairs = append(pairs, [4]string{o.y, x, y, o.m})
		}
		if o.y == x {
			pairs = append(pairs, [4]string{o.x, y, x, o.m})
		}
		for _, p := range pairs {
			// o.m = p0 * c ; m = p1 * c
			a("(=> (and (>= %s 0) (<= %s %s)) (<= %s %s))", p[2], p[0], p[1], p[3], m)
			a("(=> (and (>= %s 0) (>= %s %s)) (>= %s %s))", p[2], p[0], p[1], p[3], m)
			a("(=> (= %s %s) (= %s %s))", p[0], p[1], p[3], m)
			a("(=> (and (> %s 0) (< %s %s)) (< %s %s))", p[2], p[0], p[1], p[3], m)
		}
	}
	r.nls = append(r.nls, nlRec{m, x, y})
}

// nlBoundLemmas: m = x*y where y has a known constant interval [lo,hi]:
// x >= 0 => lo*x <= m <= hi*x, and reversed for x <= 0.
func (r *Renderer) nlBoundLemmas(m, x string, y *Term) {
	if y.lo == nil || y.hi == nil {
		return
	}
	lo, hi := smtInt(y.lo), smtInt(y.hi)
	r.emit(fmt.Sprintf("(assert (=> (>= %s 0) (and (<= (* %s %s) %s) (<= %s (* %s %s)))))", x, lo, x, m, m, hi, x))
	r.emit(fmt.Sprintf("(assert (=> (<= %s 0) (and (>= (* %s %s) %s) (>= %s (* %s %s)))))", x, lo, x, m, m, hi, x))
}


func NewRenderer(emit func(string)) *Renderer {
	return &Renderer{emit: emit, declared: map[string]bool{}, defs: map[thash]string{}, memo: map[thash]string{}, h: newHasher()}
}

const defThreshold = 24

func (r *Renderer) Render(t *Term) string {
	var th thash
	if t.op != "c" && t.op != "v" {
		th = r.h.of(t)
		if s, ok := r.defs[th]; ok {
			return s
		}
		if s, ok := r.memo[th]; ok {
			return s
		}
	}
	var s string
	switch t.op {
	case "c":
		switch t.sort {
		case SBool:
			if t.bv {
				s = "true"
			} else {
				s = "false"
			}
		case SInt:
			s = smtInt(t.iv)
		case SStr:
			s = smtStr(t.sv)
		case SFP:
			s = t.sv
		}
	case "v":
		if !r.declared[t.name] {
			r.declared[t.name] = true
			r.emit(fmt.Sprintf("(declare-const %s %s)", t.name, t.sort))
			if t.sort == SInt {
				if t.lo != nil {
					r.emit(fmt.Sprintf("(assert (>= %s %s))", t.name, smtInt(t.lo)))
				}
				if t.hi != nil {
					r.emit(fmt.Sprintf("(assert (<= %s %s))", t.name, smtInt(t.hi)))
				}
			}
		}
		s = t.name
	default:
		parts := make([]string, 0, len(t.args)+1)
		op := t.op
		if op == "app" {
			op = t.name
		}
		if op == "nlmul" || op == "nldiv" {
			r.sawNL = true
		}
		parts = append(parts, op)
		for _, a := range t.args {
			parts = append(parts, r.Render(a))
		}
		if op == "-" && len(t.args) == 1 {
			s = "(- " + parts[1] + ")"
		} else if len(t.args) == 0 {
			s = op
		} else {
			s = "(" + strings.Join(parts, " ") + ")"
		}
		if op == "nldiv" {
			r.ndef++
			name := fmt.Sprintf("d!%d", r.ndef)
			r.emit(fmt.Sprintf("(define-fun %s () %s %s)", name, t.sort, s))
			r.defs[th] = name
			x, y := parts[1], parts[2]
			r.emit(fmt.Sprintf("(assert (=> (and (>= %s 0) (> %s 0)) (and (>= %s 0) (<= %s %s))))", x, y, name, name, x))
			r.emit(fmt.Sprintf("(assert (=> (and (>= %s 0) (> %s %s)) (= %s 0)))", x, y, x, name))
			r.emit(fmt.Sprintf("(assert (=> (= %s 1) (= %s %s)))", y, name, x))
			return name
		}
		if t.size > defThreshold || op == "nlmul" {
			r.ndef++
			name := fmt.Sprintf("d!%d", r.ndef)
			r.emit(fmt.Sprintf("(define-fun %s () %s %s)", name, t.sort, s))
			r.defs[th] = name
			if op == "nlmul" {
				r.nlLemmas(name, parts[1], parts[2])
				r.nlBoundLemmas(name, parts[1], t.args[1])
				r.nlBoundLemmas(name, parts[2], t.args[0])
			}
			return name
		}
	}
	if t.size > 4 && t.op != "c" && t.op != "v" {
		r.memo[th] = s
	}
	return s
}
