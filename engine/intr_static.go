package main

// Static (SSA-level) facts about the application wiring, for the harnesses of package w.

import (
	"go/constant"
	"go/types"
	"sort"
	"strings"

	"golang.org/x/tools/go/ssa"
)

const rtwPkgPath = modPath + "/zz_verif/rtw"

func (e *Engine) findFuncByName(full string) *ssa.Function {
	// anonymous functions: "pkgpath.Func$1" (possibly nested "$1$2") are found through the parent
	if i := strings.LastIndex(full, "$"); i > 0 {
		parent := e.findFuncByName(full[:i])
		if parent == nil {
			return nil
		}
		for _, af := range parent.AnonFuncs {
			if af.String() == full {
				e.ensureBuilt(af)
				return af
			}
		}
		return nil
	}
	// full: "pkgpath.Func" or "(*pkgpath.Type).Method" / "(pkgpath.Type).Method"
	for _, pk := range e.prog.AllPackages() {
		pp := pk.Pkg.Path()
		if !strings.Contains(full, pp) {
			continue
		}
		for _, m := range pk.Members {
			switch x := m.(type) {
			case *ssa.Function:
				if x.String() == full {
					e.ensureBuilt(x)
					return x
				}
			case *ssa.Type:
				for _, t := range []types.Type{x.Type(), types.NewPointer(x.Type())} {
					ms := e.prog.MethodSets.MethodSet(t)
					for i := 0; i < ms.Len(); i++ {
						f := e.prog.MethodValue(ms.At(i))
						if f != nil && f.String() == full {
							e.ensureBuilt(f)
							return f
						}
					}
				}
			}
		}
	}
	return nil
}

func orderedBlocks(fn *ssa.Function) []*ssa.BasicBlock {
	bs := append([]*ssa.BasicBlock(nil), fn.Blocks...)
	sort.SliceStable(bs, func(i, j int) bool {
		pi, pj := firstPos(bs[i]), firstPos(bs[j])
		return pi < pj
	})
	return bs
}

func firstPos(b *ssa.BasicBlock) int {
	for _, ins := range b.Instrs {
		if p := ins.Pos(); p.IsValid() {
			return int(p)
		}
	}
	return 1 << 60
}

// foldSSA evaluates a constant expression tree (constants and calls of pure functions on
// constants) with the engine's own interpreter.
func (p *Path) foldSSA(v ssa.Value, depth int) Value {
	if depth > 8 {
		panic(engErr("static expression too deep"))
	}
	switch x := v.(type) {
	case *ssa.Const:
		return p.constValue(x)
	case *ssa.Call:
		callee := x.Call.StaticCallee()
		if callee == nil {
			panic(engErr("static expression: dynamic call %s", x.String()))
		}
		var args []Value
		for _, a := range x.Call.Args {
			args = append(args, p.foldSSA(a, depth+1))
		}
		return p.callFunction(callee, args, nil)
	case *ssa.Convert:
		return p.convert(p.foldSSA(x.X, depth+1), x.X.Type(), x.Type())
	case *ssa.ChangeType:
		return p.foldSSA(x.X, depth+1)
	}
	panic(engErr("static expression: cannot fold %T (%s)", v, v.String()))
}

func registerStatic(e *Engine) {
	in := e.intrinsics
	in[rtwPkgPath+".Static"] = func(p *Path, a []Value) Value { return VBool{tTrue} }
	// command-line glue: the client context is environment. GetClientQueryContext yields an empty
	// context, PrintString appends to the path's output, which rtw.Printed() hands to the harness.
	const CL = "github.com/cosmos/cosmos-sdk/client."
	in[CL+"GetClientQueryContext"] = func(p *Path, a []Value) Value {
		fn := p.eng.findFuncByName(CL + "GetClientQueryContext")
		if fn == nil {
			panic(engErr("client.GetClientQueryContext not in program"))
		}
		ct := fn.Signature.Results().At(0).Type()
		return tuple(zeroValue(ct), nilErr)
	}
	in["("+CL+"Context).PrintString"] = func(p *Path, a []Value) Value {
		if p.printed == nil {
			p.printed = StrC("")
		}
		p.printed = StrConcat(p.printed, tStr(a[1]))
		return nilErr
	}
	in[rtwPkgPath+".PrepareCmd"] = func(p *Path, a []Value) Value { p.printed = nil; return nil }
	in[rtwPkgPath+".Printed"] = func(p *Path, a []Value) Value {
		if p.printed == nil {
			return VStr{StrC("")}
		}
		return VStr{p.printed}
	}
	in[rtwPkgPath+".KeeperAuthority"] = func(p *Path, a []Value) Value {
		module := cStr(a[0], "module")
		fn := p.eng.findFuncByName(modPath + "/app.NewApp")
		if fn == nil {
			panic(engErr("app.NewApp not found (package app not loaded?)"))
		}
		want := modPath + "/x/" + module + "/keeper.NewKeeper"
		var found []*ssa.Call
		for _, b := range fn.Blocks {
			for _, ins := range b.Instrs {
				if c, ok := ins.(*ssa.Call); ok {
					if sc := c.Call.StaticCallee(); sc != nil && sc.String() == want {
						found = append(found, c)
					}
				}
			}
		}
		if len(found) != 1 {
			panic(engErr("expected exactly one call of %s in app.NewApp, found %d", want, len(found)))
		}
		args := found[0].Call.Args
		sig := found[0].Call.StaticCallee().Signature
		idx := -1
		for i := 0; i < sig.Params().Len(); i++ {
			if sig.Params().At(i).Name() == "authority" {
				idx = i
			}
		}
		if idx < 0 {
			panic(engErr("%s has no parameter named authority", want))
		}
		p.hr.noteFunc(fn)
		return p.foldSSA(args[idx], 0)
	}
	in[rtwPkgPath+".KeeperStoreKey"] = func(p *Path, a []Value) Value {
		module := cStr(a[0], "module")
		fn := p.eng.findFuncByName(modPath + "/app.NewApp")
		if fn == nil {
			panic(engErr("app.NewApp not found (package app not loaded?)"))
		}
		want := modPath + "/x/" + module + "/keeper.NewKeeper"
		for _, b := range fn.Blocks {
			for _, ins := range b.Instrs {
				c, ok := ins.(*ssa.Call)
				if !ok {
					continue
				}
				if sc := c.Call.StaticCallee(); sc == nil || sc.String() != want {
					continue
				}
				// the storeKey argument: MakeInterface/ChangeInterface of a map lookup keys["<name>"]
				var v ssa.Value = c.Call.Args[0]
				for i := 0; i < 6; i++ {
					switch x := v.(type) {
					case *ssa.MakeInterface:
						v = x.X
						continue
					case *ssa.ChangeInterface:
						v = x.X
						continue
					case *ssa.Extract:
						v = x.Tuple
						continue
					case *ssa.Lookup:
						if k, ok := x.Index.(*ssa.Const); ok && k.Value != nil && k.Value.Kind() == constant.String {
							p.hr.noteFunc(fn)
							return VStr{StrC(constant.StringVal(k.Value))}
						}
					}
					break
				}
				panic(engErr("store key argument of %s is not a constant lookup keys[...]", want))
			}
		}
		panic(engErr("no call of %s in app.NewApp", want))
	}
	// ModuleLegacySubspace(module): the constant name in the app.GetSubspace("<name>") call that
	// feeds the last argument of x/<module>.NewAppModule in app.NewApp.
	in[rtwPkgPath+".ModuleLegacySubspace"] = func(p *Path, a []Value) Value {
		module := cStr(a[0], "module")
		fn := p.eng.findFuncByName(modPath + "/app.NewApp")
		if fn == nil {
			panic(engErr("app.NewApp not found (package app not loaded?)"))
		}
		want := modPath + "/x/" + module + ".NewAppModule"
		for _, b := range orderedBlocks(fn) {
			for _, ins := range b.Instrs {
				c, ok := ins.(*ssa.Call)
				if !ok {
					continue
				}
				if sc := c.Call.StaticCallee(); sc == nil || sc.String() != want {
					continue
				}
				var v ssa.Value = c.Call.Args[len(c.Call.Args)-1]
				for i := 0; i < 6; i++ {
					switch x := v.(type) {
					case *ssa.MakeInterface:
						v = x.X
						continue
					case *ssa.ChangeInterface:
						v = x.X
						continue
					case *ssa.Call:
						if sc := x.Call.StaticCallee(); sc != nil && strings.HasSuffix(sc.String(), ".GetSubspace") && len(x.Call.Args) > 0 {
							p.hr.noteFunc(fn)
							return p.foldSSA(x.Call.Args[len(x.Call.Args)-1], 0)
						}
					}
					break
				}
				panic(engErr("legacy subspace argument of %s is not app.GetSubspace(<constant>)", want))
			}
		}
		panic(engErr("no call of %s in app.NewApp", want))
	}
	// StaticCallConstArgs(fn, calleeSubstr): the constant arguments (rendered as text, "" for
	// non-constants) of the first call in fn whose callee (static name, or method name of an
	// interface call) contains calleeSubstr.
	in[rtwPkgPath+".StaticCallConstArgs"] = func(p *Path, a []Value) Value {
		fn := p.eng.findFuncByName(cStr(a[0], "function name"))
		sub := cStr(a[1], "callee substring")
		if fn == nil {
			panic(engErr("function %v not found", a[0]))
		}
		p.hr.noteFunc(fn)
		for _, b := range orderedBlocks(fn) {
			for _, ins := range b.Instrs {
				c, ok := ins.(*ssa.Call)
				if !ok {
					continue
				}
				name := ""
				if sc := c.Call.StaticCallee(); sc != nil {
					name = sc.String()
				} else if c.Call.IsInvoke() {
					name = "invoke:" + c.Call.Method.Name()
				}
				if !strings.Contains(name, sub) {
					continue
				}
				var out []Value
				for _, arg := range c.Call.Args {
					s := ""
					if k, ok := arg.(*ssa.Const); ok && k.Value != nil {
						s = k.Value.ExactString()
					}
					out = append(out, VStr{StrC(s)})
				}
				return VSlice{Obj: p.newObj(&VArray{E: out}, "staticconsts"), Len: len(out), Cap: len(out)}
			}
		}
		return VSlice{Nil: true}
	}
	// StaticCallArgFields(fn, calleeSubstr): for the first call in fn whose static callee name
	// contains calleeSubstr, the struct field name each argument is read from ("" if it is not a
	// plain field read).
	in[rtwPkgPath+".StaticCallArgFields"] = func(p *Path, a []Value) Value {
		fn := p.eng.findFuncByName(cStr(a[0], "function name"))
		sub := cStr(a[1], "callee substring")
		if fn == nil {
			panic(engErr("function %s not found", cStr(a[0], "function name")))
		}
		p.hr.noteFunc(fn)
		for _, b := range orderedBlocks(fn) {
			for _, ins := range b.Instrs {
				c, ok := ins.(*ssa.Call)
				if !ok {
					continue
				}
				sc := c.Call.StaticCallee()
				if sc == nil || !strings.Contains(sc.String(), sub) {
					continue
				}
				var out []Value
				for _, arg := range c.Call.Args {
					out = append(out, VStr{StrC(fieldSourceName(arg))})
				}
				return VSlice{Obj: p.newObj(&VArray{E: out}, "argfields"), Len: len(out), Cap: len(out)}
			}
		}
		return VSlice{Nil: true}
	}
	// StaticStructInit(fn, typeSubstr): "Field=Source" for every store into a field of a local
	// struct whose type name contains typeSubstr, where Source is the field name the stored value
	// is read from ("" when it is not a plain field read).
	in[rtwPkgPath+".StaticStructInit"] = func(p *Path, a []Value) Value {
		fn := p.eng.findFuncByName(cStr(a[0], "function name"))
		sub := cStr(a[1], "type substring")
		if fn == nil {
			panic(engErr("function %s not found", cStr(a[0], "function name")))
		}
		p.hr.noteFunc(fn)
		var out []Value
		for _, b := range orderedBlocks(fn) {
			for _, ins := range b.Instrs {
				st, ok := ins.(*ssa.Store)
				if !ok {
					continue
				}
				fa, ok := st.Addr.(*ssa.FieldAddr)
				if !ok {
					continue
				}
				pt, ok := fa.X.Type().Underlying().(*types.Pointer)
				if !ok || !strings.Contains(pt.Elem().String(), sub) {
					continue
				}
				stt, ok := pt.Elem().Underlying().(*types.Struct)
				if !ok {
					continue
				}
				out = append(out, VStr{StrC(stt.Field(fa.Field).Name() + "=" + fieldSourceName(st.Val))})
			}
		}
		return VSlice{Obj: p.newObj(&VArray{E: out}, "structinit"), Len: len(out), Cap: len(out)}
	}
	// InitGenesisOrder: the constant string list passed to ModuleManager.SetOrderInitGenesis in
	// app.NewApp (a slice literal of module-name constants), in order.
	moduleOrder := func(p *Path, setter string) Value {
		fn := p.eng.findFuncByName(modPath + "/app.NewApp")
		if fn == nil {
			panic(engErr("app.NewApp not found (package app not loaded?)"))
		}
		p.hr.noteFunc(fn)
		for _, b := range fn.Blocks {
			for _, ins := range b.Instrs {
				c, ok := ins.(*ssa.Call)
				if !ok {
					continue
				}
				sc := c.Call.StaticCallee()
				if sc == nil || !strings.HasSuffix(sc.String(), "."+setter) {
					continue
				}
				sl, ok := c.Call.Args[len(c.Call.Args)-1].(*ssa.Slice)
				if !ok {
					panic(engErr("%s argument is not a slice literal", setter))
				}
				alloc, ok := sl.X.(*ssa.Alloc)
				if !ok {
					panic(engErr("%s argument is not a slice literal", setter))
				}
				byIdx := map[int]string{}
				max := -1
				for _, b2 := range fn.Blocks {
					for _, i2 := range b2.Instrs {
						st, ok := i2.(*ssa.Store)
						if !ok {
							continue
						}
						ia, ok := st.Addr.(*ssa.IndexAddr)
						if !ok || ia.X != alloc {
							continue
						}
						ic, ok1 := ia.Index.(*ssa.Const)
						vc, ok2 := st.Val.(*ssa.Const)
						if !ok1 || !ok2 || vc.Value == nil || vc.Value.Kind() != constant.String {
							panic(engErr("genesis order list has a non-constant element"))
						}
						k := int(ic.Int64())
						byIdx[k] = constant.StringVal(vc.Value)
						if k > max {
							max = k
						}
					}
				}
				out := make([]Value, max+1)
				for i := range out {
					out[i] = VStr{StrC(byIdx[i])}
				}
				return VSlice{Obj: p.newObj(&VArray{E: out}, "genesisorder"), Len: len(out), Cap: len(out)}
			}
		}
		panic(engErr("no %s call in app.NewApp", setter))
	}
	in[rtwPkgPath+".InitGenesisOrder"] = func(p *Path, a []Value) Value { return moduleOrder(p, "SetOrderInitGenesis") }
	in[rtwPkgPath+".BeginBlockOrder"] = func(p *Path, a []Value) Value { return moduleOrder(p, "SetOrderBeginBlockers") }
	in[rtwPkgPath+".StreamFeeCollector"] = func(p *Path, a []Value) Value {
		fn := p.eng.findFuncByName(modPath + "/app.NewApp")
		if fn == nil {
			panic(engErr("app.NewApp not found (package app not loaded?)"))
		}
		want := modPath + "/x/stream/keeper.NewKeeper"
		for _, b := range fn.Blocks {
			for _, ins := range b.Instrs {
				c, ok := ins.(*ssa.Call)
				if !ok {
					continue
				}
				sc := c.Call.StaticCallee()
				if sc == nil || sc.String() != want {
					continue
				}
				sig := sc.Signature
				for i := 0; i < sig.Params().Len(); i++ {
					if sig.Params().At(i).Name() == "feeCollectorName" {
						p.hr.noteFunc(fn)
						return p.foldSSA(c.Call.Args[i], 0)
					}
				}
				panic(engErr("stream NewKeeper has no parameter feeCollectorName"))
			}
		}
		panic(engErr("no call of %s in app.NewApp", want))
	}
	in[rtwPkgPath+".StaticTrace"] = func(p *Path, a []Value) Value {
		name := cStr(a[0], "function name")
		fn := p.eng.findFuncByName(name)
		if fn == nil {
			panic(engErr("function %s not found", name))
		}
		p.hr.noteFunc(fn)
		var out []Value
		for _, b := range orderedBlocks(fn) {
			for _, ins := range b.Instrs {
				switch x := ins.(type) {
				case *ssa.Call:
					if sc := x.Call.StaticCallee(); sc != nil {
						out = append(out, VStr{StrC(sc.String())})
					} else if x.Call.IsInvoke() {
						out = append(out, VStr{StrC("invoke:" + x.Call.Method.Name())})
						out = append(out, VStr{StrC("invoketype:" + x.Call.Value.Type().String() + "." + x.Call.Method.Name())})
					}
				case *ssa.Lookup:
					if c, ok := x.Index.(*ssa.Const); ok && c.Value != nil && c.Value.Kind() == constant.String {
						out = append(out, VStr{StrC("lookup:" + constant.StringVal(c.Value))})
					}
				}
			}
		}
		return VSlice{Obj: p.newObj(&VArray{E: out}, "statictrace"), Len: len(out), Cap: len(out)}
	}
}

// fieldSourceName: the name of the struct field an SSA value is read from, looking through
// interface conversions, loads and address-of; "" if the value is not a plain field read.
func fieldSourceName(v ssa.Value) string {
	for i := 0; i < 8; i++ {
		switch x := v.(type) {
		case *ssa.MakeInterface:
			v = x.X
		case *ssa.ChangeInterface:
			v = x.X
		case *ssa.ChangeType:
			v = x.X
		case *ssa.UnOp:
			v = x.X
		case *ssa.Field:
			if st, ok := x.X.Type().Underlying().(*types.Struct); ok {
				return st.Field(x.Field).Name()
			}
			return ""
		case *ssa.FieldAddr:
			if pt, ok := x.X.Type().Underlying().(*types.Pointer); ok {
				if st, ok := pt.Elem().Underlying().(*types.Struct); ok {
					return st.Field(x.Field).Name()
				}
			}
			return ""
		default:
			return ""
		}
	}
	return ""
}
