package main

import (
	"fmt"
	"math/big"
	"os"
	"regexp"
	"runtime/debug"
	"sort"
	"strings"
	"sync"
	"time"

	"golang.org/x/tools/go/ssa"
)

type AssertStat struct {
	Label     string
	Checked   int
	Syntactic int // discharged without a solver call (condition folded to true)
	Unsat     int
	Sat       int
	Unknown   int
}

type Violation struct {
	Harness string            `json:"harness"`
	Prop    string            `json:"property,omitempty"`
	Tier    string            `json:"tier"`
	Label   string            `json:"label"`
	Kind    string            `json:"kind"` // assert | panic
	Msg     string            `json:"msg,omitempty"`
	Inputs  map[string]string `json:"inputs"`
	Choices []int             `json:"choices"`
	Known   string            `json:"known,omitempty"`
	DecIn   []string          `json:"decimal_inputs,omitempty"` // string inputs realised from a parsed decimal value
	Replay  string            `json:"replay,omitempty"` // reproduced | not-reproduced | skipped
	Path    string            `json:"path,omitempty"`
}

type HarnessOpts struct {
	Solvers   []string `json:"solvers"`
	TimeoutMs int      `json:"timeout_ms"`
	LoopBound int      `json:"loop_bound"`
	MaxPaths  int      `json:"max_paths"`
	Workers   int      `json:"workers"`
}

type HarnessRun struct {
	Prop      string
	Name      string
	Tier      string
	LoopBound int
	mu        sync.Mutex
	funcs     map[string]bool
	Paths     int
	PathsEnded map[string]int
	Asserts   map[string]*AssertStat
	Reach     map[string]bool
	ReachSeen map[string]bool
	Viol      []Violation
	EngineErr []string
	BoundErr  []string
	UnknownBr []string
	Nondet    map[string]bool
	MapRanges map[string]bool
	Assumps   map[string]bool
	Stats     *SolverStats
	WallS     float64
	GlobalW   map[string]bool
	Samples   []string
	knownIDs  map[string]bool
	maxViol   int
}

func newHarnessRun(name, tier string, known map[string]bool) *HarnessRun {
	return &HarnessRun{Name: name, Tier: tier, LoopBound: maxBackEdges, funcs: map[string]bool{},
		PathsEnded: map[string]int{}, Asserts: map[string]*AssertStat{}, Reach: map[string]bool{}, ReachSeen: map[string]bool{},
		Nondet: map[string]bool{}, MapRanges: map[string]bool{}, Assumps: map[string]bool{}, Stats: newStats(),
		GlobalW: map[string]bool{}, knownIDs: known, maxViol: 3}
}

func (h *HarnessRun) loopBound() int { return h.LoopBound }
func (h *HarnessRun) noteFunc(fn *ssa.Function) {
	if fn.Pkg == nil && fn.Synthetic != "" {
		return
	}
	h.mu.Lock()
	h.funcs[fn.String()] = true
	h.mu.Unlock()
}
func (h *HarnessRun) noteUnknownBranch(w string) {
	h.mu.Lock()
	if len(h.UnknownBr) < 20 {
		h.UnknownBr = append(h.UnknownBr, w)
	}
	h.mu.Unlock()
}
func (h *HarnessRun) noteNondet(s string) {
	h.mu.Lock()
	if h.Nondet != nil {
		h.Nondet[s] = true
	}
	h.mu.Unlock()
}
func (h *HarnessRun) noteMapRange(s string) {
	h.mu.Lock()
	if h.MapRanges != nil {
		h.MapRanges[s] = true
	}
	h.mu.Unlock()
}
func (h *HarnessRun) noteAssumption(s string) {
	h.mu.Lock()
	if h.Assumps != nil {
		h.Assumps[s] = true
	}
	h.mu.Unlock()
}

func (h *HarnessRun) stat(label string) *AssertStat {
	s := h.Asserts[label]
	if s == nil {
		s = &AssertStat{Label: label}
		h.Asserts[label] = s
	}
	return s
}

// ---------- per-path obligation handling ----------

func (p *Path) inputTerms() []*Term {
	ts := make([]*Term, len(p.inputs))
	for i, in := range p.inputs {
		ts[i] = in.T
	}
	for _, in := range p.inputs {
		if raw, ok := p.decStr[in.Name]; ok {
			ts = append(ts, raw)
		}
	}
	return ts
}

func (p *Path) modelToInputs(model map[string]string) map[string]string {
	out := map[string]string{}
	r := p.sess.r
	for _, in := range p.inputs {
		key := r.Render(in.T)
		if v, ok := model[key]; ok {
			out[in.Name] = v
		}
		// a string input that the code parses as a decimal: the solver chose its numeric value
		// through the uninterpreted parser, realise the string as the canonical rendering of it
		if raw, ok := p.decStr[in.Name]; ok {
			if v, ok := model[r.Render(raw)]; ok {
				if n, ok := new(big.Int).SetString(strings.ReplaceAll(v, " ", ""), 10); ok {
					out[in.Name] = "s:" + decString(n)
				}
			}
		}
	}
	return out
}

func (p *Path) decInputNames() []string {
	var ns []string
	for _, in := range p.inputs {
		if _, ok := p.decStr[in.Name]; ok {
			ns = append(ns, in.Name)
		}
	}
	return ns
}

// decVariants: other spellings of the same decimal value that the SDK parser reads identically
// (all nine fractional digits written out; a leading zero). A counterexample whose failing
// condition depends on the spelling, not only on the value, is replayed with each of them.
func decVariants(canon string) []string {
	var out []string
	neg := strings.HasPrefix(canon, "-")
	body := strings.TrimPrefix(canon, "-")
	ip, fp := body, ""
	if i := strings.Index(body, "."); i >= 0 {
		ip, fp = body[:i], body[i+1:]
	}
	sign := ""
	if neg {
		sign = "-"
	}
	if len(fp) < 9 {
		out = append(out, sign+ip+"."+fp+strings.Repeat("0", 9-len(fp)))
	}
	if len(fp) > 0 && len(fp) < 8 {
		out = append(out, sign+ip+"."+fp+"0")
	}
	out = append(out, sign+"0"+body)
	return out
}

func (p *Path) knownDisj() *Term {
	var cs []*Term
	for id, c := range p.known {
		if p.hr.knownIDs[id] {
			cs = append(cs, c)
		}
	}
	return Or(cs...)
}

func (p *Path) sortedKnown() []string {
	var ids []string
	for id := range p.known {
		if p.hr.knownIDs[id] {
			ids = append(ids, id)
		}
	}
	sort.Strings(ids)
	return ids
}

// obligation: cond must hold on this path. kind = "assert" or "panic" (cond = false).
func (p *Path) obligation(label, kind, msg string, cond *Term) {
	h := p.hr
	h.mu.Lock()
	st := h.stat(label)
	st.Checked++
	h.mu.Unlock()
	if v, ok := cond.ConstBool(); ok && v {
		h.mu.Lock()
		st.Syntactic++
		h.mu.Unlock()
		return
	}
	neg := Not(cond)
	p.sess.where = "obligation " + label
	kd := p.knownDisj()
	res, model := Unknown, map[string]string(nil)
	if p.stress != nil {
		// candidate of an unmodelled step: prefer a model under the stress condition
		if r, m := p.sess.Check(And(neg, Not(kd), p.stress), p.inputTerms()); r == Sat {
			res, model = r, m
		}
	}
	if res != Sat {
		res, model = p.sess.Check(And(neg, Not(kd)), p.inputTerms())
	}
	switch res {
	case Unsat:
		h.mu.Lock()
		st.Unsat++
		if len(h.Samples) < 12 {
			h.Samples = append(h.Samples, fmt.Sprintf("%s: path[%s] |= %s  (unsat: pc ∧ ¬(%s))", label, trailStr(p.trail), label, shorten(termStr(cond), 160)))
		}
		h.mu.Unlock()
	case Sat:
		h.mu.Lock()
		st.Sat++
		if countViol(h.Viol, label, "") < h.maxViol {
			h.Viol = append(h.Viol, Violation{Harness: h.Name, Prop: h.Prop, Tier: h.Tier, Label: label, Kind: kind, Msg: msg, Inputs: p.modelToInputs(model), DecIn: p.decInputNames(), Choices: append([]int(nil), p.choices...)})
		}
		h.mu.Unlock()
	case Unknown:
		h.mu.Lock()
		st.Unknown++
		h.mu.Unlock()
	}
	// instances matching listed known findings
	if _, isF := kd.ConstBool(); !isF || kd != tFalse {
		for _, id := range p.sortedKnown() {
			c := p.known[id]
			r2, m2 := p.sess.Check(And(neg, c), p.inputTerms())
			if r2 == Sat {
				h.mu.Lock()
				if countViol(h.Viol, label, id) < 1 {
					h.Viol = append(h.Viol, Violation{Harness: h.Name, Prop: h.Prop, Tier: h.Tier, Label: label, Kind: kind, Msg: msg, Inputs: p.modelToInputs(m2), DecIn: p.decInputNames(), Choices: append([]int(nil), p.choices...), Known: id})
				}
				h.mu.Unlock()
			} else if r2 == Unknown {
				h.mu.Lock()
				st.Unknown++
				h.mu.Unlock()
			}
		}
	}
}

func countViol(vs []Violation, label, known string) int {
	n := 0
	for _, v := range vs {
		if v.Label == label && v.Known == known {
			n++
		}
	}
	return n
}

func shorten(s string, n int) string {
	if len(s) > n {
		return s[:n] + "…"
	}
	return s
}

func trailStr(t []decision) string {
	var sb strings.Builder
	for _, d := range t {
		if d.Kind == 'c' {
			fmt.Fprintf(&sb, "c%d", d.Val)
		} else if d.Forced {
			if d.Val == 1 {
				sb.WriteByte('t')
			} else {
				sb.WriteByte('f')
			}
		} else if d.Val == 1 {
			sb.WriteByte('T')
		} else {
			sb.WriteByte('F')
		}
	}
	s := sb.String()
	if len(s) > 60 {
		s = s[:60] + "…"
	}
	return s
}

// an assertion label may start with one or more property ids ("C07.", "C07+C09+C18."): it is then
// only an obligation of checks run for one of those properties; unprefixed labels always apply
var propLabelRe = regexp.MustCompile(`^(C[0-9]{2,3}(?:\+C[0-9]{2,3})*)\.`)

func labelApplies(label, prop string) bool {
	if m := propLabelRe.FindStringSubmatch(label); m != nil && prop != "" {
		for _, id := range strings.Split(m[1], "+") {
			if id == prop {
				return true
			}
		}
		return false
	}
	return true
}

func (p *Path) assertion(label string, cond *Term) {
	if !labelApplies(label, p.hr.Prop) {
		return // belongs to another property's check
	}
	p.obligation(label, "assert", "", cond)
	// continue under the asserted condition so later obligations are independent
	p.Assume(cond)
}

func (p *Path) reach(label string) {
	h := p.hr
	h.mu.Lock()
	h.ReachSeen[label] = true
	done := h.Reach[label]
	h.mu.Unlock()
	if done {
		return
	}
	res, _ := p.sess.Check(tTrue, nil)
	if res == Sat {
		h.mu.Lock()
		h.Reach[label] = true
		h.mu.Unlock()
	}
}

// ---------- exploration ----------

func (e *Engine) RunHarness(prop, name, tier string, opts HarnessOpts, known map[string]bool) *HarnessRun {
	hr := newHarnessRun(name, tier, known)
	hr.Prop = prop
	if opts.LoopBound > 0 {
		hr.LoopBound = opts.LoopBound
	}
	fn := e.harnessFunc(name)
	if fn == nil {
		hr.EngineErr = append(hr.EngineErr, "harness not found: "+name)
		return hr
	}
	if len(opts.Solvers) == 0 {
		opts.Solvers = []string{"z3new", "cvc5", "z3"}
	}
	if opts.TimeoutMs == 0 {
		opts.TimeoutMs = 20000
	}
	if opts.Workers == 0 {
		opts.Workers = 14
	}
	if opts.MaxPaths == 0 {
		opts.MaxPaths = 200000
	}
	t0 := time.Now()
	var (
		mu      sync.Mutex
		cond    = sync.NewCond(&mu)
		work    = [][]decision{nil}
		active  = 0
		aborted = false
	)
	var wg sync.WaitGroup
	for w := 0; w < opts.Workers; w++ {
		wg.Add(1)
		go func(w int) {
			defer wg.Done()
			sess := NewSession(opts.Solvers, opts.TimeoutMs, hr.Stats)
			if f := os.Getenv("SYMGO_DUMP"); f != "" && w == 0 {
				df, _ := os.Create(f)
				sess.dump = df
			}
			defer sess.Close()
			for {
				mu.Lock()
				for len(work) == 0 && active > 0 && !aborted {
					cond.Wait()
				}
				if aborted || (len(work) == 0 && active == 0) {
					mu.Unlock()
					cond.Broadcast()
					return
				}
				trail := work[len(work)-1]
				work = work[:len(work)-1]
				active++
				mu.Unlock()

				alts, fatal := e.runPath(fn, trail, hr, sess, tier)

				mu.Lock()
				active--
				work = append(work, alts...)
				hr.Paths++
				if fatal || hr.Paths >= opts.MaxPaths {
					if hr.Paths >= opts.MaxPaths && !fatal {
						hr.BoundErr = append(hr.BoundErr, fmt.Sprintf("path budget %d exhausted", opts.MaxPaths))
					}
					aborted = true
				}
				mu.Unlock()
				cond.Broadcast()
			}
		}(w)
	}
	wg.Wait()
	hr.WallS = time.Since(t0).Seconds()
	return hr
}

func (e *Engine) runPath(fn *ssa.Function, trail []decision, hr *HarnessRun, sess *Session, tier string) (alts [][]decision, fatal bool) {
	p := &Path{eng: e, sess: sess, hr: hr, globals: map[*ssa.Global]*Obj{}, tier: tier}
	p.trail = append([]decision(nil), trail...)
	sess.BeginPath()
	defer sess.EndPath()
	end := "returned"
	func() {
		defer func() {
			if r := recover(); r != nil {
				switch x := r.(type) {
				case pathEnd:
					end = x.reason
				case goPanic:
					end = "panic"
					label := "nopanic:" + x.Site
					p.obligation(label, "panic", x.Msg, tFalse)
				case codecConfusion:
					end = "codec-confusion"
					p.obligation("INV.stored-value-read-with-the-codec-that-wrote-it:"+x.Site, "codec-confusion", x.Msg, tFalse)
				case unmodelled:
					end = "unmodelled"
					p.stress = x.Stress
					p.obligation(x.Label+":"+x.Site, "unmodelled", x.Msg, tFalse)
					p.stress = nil
				case engineErr:
					end = "engine-error"
					hr.mu.Lock()
					if len(hr.EngineErr) < 10 {
						hr.EngineErr = append(hr.EngineErr, x.msg)
					}
					hr.mu.Unlock()
					fatal = true
				case boundErr:
					end = "bound"
					hr.mu.Lock()
					if len(hr.BoundErr) < 10 {
						hr.BoundErr = append(hr.BoundErr, x.msg)
					}
					hr.mu.Unlock()
				default:
					// a marshalled (opaque) value consumed as raw bytes by some byte-level primitive:
					// the same codec confusion as an explicit decoder mismatch (see codecConfusion)
					if e, ok := r.(error); ok && strings.Contains(e.Error(), "is main.VBlob, not main.VSlice") {
						end = "codec-confusion"
						p.obligation("INV.stored-value-read-with-the-codec-that-wrote-it:"+p.crashSite, "codec-confusion", "a codec.Marshal'ed value was consumed as raw bytes", tFalse)
						break
					}
					end = "engine-crash"
					hr.mu.Lock()
					hr.EngineErr = append(hr.EngineErr, fmt.Sprintf("internal error: %v\n%s", r, shorten(string(debug.Stack()), 3000)))
					hr.mu.Unlock()
					fatal = true
				}
			}
		}()
		p.callFunction(fn, nil, nil)
	}()
	hr.mu.Lock()
	hr.PathsEnded[end]++
	for _, g := range p.gwrites {
		hr.GlobalW[g] = true
	}
	hr.mu.Unlock()
	return p.alts, fatal
}

// decString renders raw (value × 10^18) as a decimal string without trailing zeros.
func decString(raw *big.Int) string {
	neg := raw.Sign() < 0
	a := new(big.Int).Abs(raw)
	q, r := new(big.Int).QuoRem(a, ten18, new(big.Int))
	out := q.String()
	if r.Sign() != 0 {
		f := r.String()
		for len(f) < 18 {
			f = "0" + f
		}
		out += "." + strings.TrimRight(f, "0")
	}
	if neg {
		out = "-" + out
	}
	return out
}
