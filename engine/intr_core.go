package main

import (
	"fmt"
	"go/types"
	"math/big"
	"strconv"
	"strings"
)

func registerIntrinsics(e *Engine) {
	registerRT(e)
	registerCore(e)
	registerMath(e)
	registerTime(e)
	registerSDK(e)
	registerStatic(e)
}

func tInt(v Value) *Term {
	switch x := v.(type) {
	case VInt:
		return x.T
	}
	panic(engErr("expected int value, got %T", v))
}
func tBool(v Value) *Term {
	if x, ok := v.(VBool); ok {
		return x.T
	}
	panic(engErr("expected bool value, got %T", v))
}
func tStr(v Value) *Term {
	if x, ok := v.(VStr); ok {
		return x.T
	}
	panic(engErr("expected string value, got %T", v))
}
func cStr(v Value, what string) string {
	s, ok := tStr(v).ConstStr()
	if !ok {
		panic(engErr("%s must be a constant string", what))
	}
	return s
}

func tuple(vs ...Value) Value { return VTuple{E: vs} }

func (e *Engine) errVal(root, msg string) Value {
	return VIface{Ty: e.errTokTy, Val: VErr{Root: root, Msg: msg}}
}

var nilErr = VIface{}

func (p *Path) addInput(name, kind string, t *Term) {
	for _, in := range p.inputs {
		if in.Name == name {
			panic(engErr("duplicate rt input name %q", name))
		}
	}
	p.inputs = append(p.inputs, inputRec{name, kind, t})
}

func inName(name string) string {
	var sb strings.Builder
	sb.WriteString("in_")
	for _, c := range name {
		if (c >= 'a' && c <= 'z') || (c >= 'A' && c <= 'Z') || (c >= '0' && c <= '9') || c == '_' {
			sb.WriteRune(c)
		} else {
			sb.WriteString(fmt.Sprintf("_%x_", c))
		}
	}
	return sb.String()
}

func registerRT(e *Engine) {
	rt := func(name string, f Intrinsic) { e.intrinsics[rtPkgPath+"."+name] = f }

	intIn := func(kind string, ty IntTy) Intrinsic {
		return func(p *Path, a []Value) Value {
			name := cStr(a[0], "rt input name")
			t := IntVar(inName(name), ty.Min(), ty.Max())
			p.addInput(name, kind, t)
			return VInt{t}
		}
	}
	rt("U64", intIn("u64", IntTy{64, false}))
	rt("I64", intIn("i64", IntTy{64, true}))
	rt("U8", intIn("u8", IntTy{8, false}))
	rt("U32", intIn("u32", IntTy{32, false}))
	rt("Bytes", func(p *Path, a []Value) Value {
		name := cStr(a[0], "rt input name")
		n := p.concreteInt(a[1], "rt.Bytes length")
		es := make([]Value, n)
		for i := 0; i < n; i++ {
			in := fmt.Sprintf("%s.%d", name, i)
			t := IntVar(inName(in), bi(0), bi(255))
			p.addInput(in, "u8", t)
			es[i] = VInt{t}
		}
		return VSlice{Obj: p.newObj(&VArray{E: es}, "rt.Bytes:"+name), Len: n, Cap: n}
	})
	rt("Bool", func(p *Path, a []Value) Value {
		name := cStr(a[0], "rt input name")
		t := Var(inName(name), SBool)
		p.addInput(name, "bool", t)
		return VBool{t}
	})
	// BigInt(name, loPow, hiPow): math.Int in [-(2^loPow) or 0 .. 2^hiPow]; lo given as int64 directly
	rt("BigInt", func(p *Path, a []Value) Value {
		name := cStr(a[0], "rt input name")
		lo, _ := tInt(a[1]).ConstInt()
		hiBits, _ := tInt(a[2]).ConstInt()
		if lo == nil || hiBits == nil {
			panic(engErr("rt.BigInt bounds must be constant"))
		}
		t := IntVar(inName(name), lo, pow2(uint(hiBits.Int64())))
		p.addInput(name, "big", t)
		return VBig{T: t}
	})
	// DecRaw(name, lo, hiBits): LegacyDec with raw (×10^18) value in [lo, 2^hiBits]
	rt("DecRaw", func(p *Path, a []Value) Value {
		name := cStr(a[0], "rt input name")
		lo, _ := tInt(a[1]).ConstInt()
		hiBits, _ := tInt(a[2]).ConstInt()
		t := IntVar(inName(name), lo, pow2(uint(hiBits.Int64())))
		p.addInput(name, "dec", t)
		return VDec{T: t}
	})
	// DecRawMax(name, maxRawDecimalString): LegacyDec with raw value in [0, max]
	rt("DecRawMax", func(p *Path, a []Value) Value {
		name := cStr(a[0], "rt input name")
		mx, ok := new(big.Int).SetString(cStr(a[1], "max"), 10)
		if !ok {
			panic(engErr("rt.DecRawMax: bad max"))
		}
		t := IntVar(inName(name), bi(0), mx)
		p.addInput(name, "dec", t)
		return VDec{T: t}
	})
	rt("Str", func(p *Path, a []Value) Value {
		name := cStr(a[0], "rt input name")
		t := Var(inName(name), SStr)
		p.addInput(name, "str", t)
		return VStr{t}
	})
	// Time(name): UTC time between year 1 and year 9999 (inclusive range accepted by protobuf)
	rt("Time", func(p *Path, a []Value) Value {
		name := cStr(a[0], "rt input name")
		sec := IntVar(inName(name)+"_sec", big.NewInt(-62135596800), big.NewInt(253402300799))
		nsec := IntVar(inName(name)+"_nsec", bi(0), bi(999999999))
		p.addInput(name+".sec", "i64", sec)
		p.addInput(name+".nsec", "i64", nsec)
		return VTime{Sec: sec, Nsec: nsec}
	})
	rt("Choose", func(p *Path, a []Value) Value {
		n := p.concreteInt(a[0], "rt.Choose")
		return VInt{IntC64(int64(p.Choose(n)))}
	})
	rt("Assume", func(p *Path, a []Value) Value {
		p.Assume(tBool(a[0]))
		return nil
	})
	rt("Assert", func(p *Path, a []Value) Value {
		p.assertion(cStr(a[0], "assert label"), tBool(a[1]))
		return nil
	})
	rt("Reach", func(p *Path, a []Value) Value {
		p.reach(cStr(a[0], "reach label"))
		return nil
	})
	rt("Known", func(p *Path, a []Value) Value {
		id := cStr(a[0], "known id")
		if p.known == nil {
			p.known = map[string]*Term{}
		}
		if old, ok := p.known[id]; ok {
			p.known[id] = Or(old, tBool(a[1]))
		} else {
			p.known[id] = tBool(a[1])
		}
		return nil
	})
	rt("And", func(p *Path, a []Value) Value { return VBool{And(tBool(a[0]), tBool(a[1]))} })
	rt("Or", func(p *Path, a []Value) Value { return VBool{Or(tBool(a[0]), tBool(a[1]))} })
	rt("Not", func(p *Path, a []Value) Value { return VBool{Not(tBool(a[0]))} })
	rt("Implies", func(p *Path, a []Value) Value { return VBool{Implies(tBool(a[0]), tBool(a[1]))} })
	rt("Iff", func(p *Path, a []Value) Value { return VBool{Eq(tBool(a[0]), tBool(a[1]))} })
	rt("IteU64", func(p *Path, a []Value) Value { return VInt{Ite(tBool(a[0]), tInt(a[1]), tInt(a[2]))} })
	rt("IteI64", func(p *Path, a []Value) Value { return VInt{Ite(tBool(a[0]), tInt(a[1]), tInt(a[2]))} })
	rt("IteInt", func(p *Path, a []Value) Value {
		return VBig{T: Ite(tBool(a[0]), bigT(a[1]), bigT(a[2]))}
	})
	rt("Catch", func(p *Path, a []Value) (res Value) {
		f := a[0]
		depth, nfn := p.depth, len(p.curFn)
		defer func() {
			if r := recover(); r != nil {
				if gp, ok := r.(goPanic); ok {
					p.depth, p.curFn = depth, p.curFn[:nfn]
					p.lastPanic = gp.Msg
					p.crashSite = ""
					res = VBool{tTrue}
					return
				}
				panic(r)
			}
		}()
		p.callValue(f, nil)
		return VBool{tFalse}
	})
	rt("Thorough", func(p *Path, a []Value) Value { return VBool{BoolC(p.tier == "thorough")} })
	rt("Note", func(p *Path, a []Value) Value { return nil })
	rt("EnvBarrier", func(p *Path, a []Value) Value { return nil })
	rt("Symbolic", func(p *Path, a []Value) Value { return VBool{tTrue} })
	rt("ErrIs", func(p *Path, a []Value) Value {
		// ErrIs(err, target) : same registered root
		x, y := a[0].(VIface), a[1].(VIface)
		if x.Ty == nil || y.Ty == nil {
			return VBool{BoolC(x.Ty == nil && y.Ty == nil)}
		}
		xe, ok1 := x.Val.(VErr)
		ye, ok2 := y.Val.(VErr)
		if ok1 && ok2 {
			return VBool{BoolC(xe.Root == ye.Root)}
		}
		return VBool{tFalse}
	})
	rt("ProtoEqual", func(p *Path, a []Value) Value {
		x, y := a[0].(VIface), a[1].(VIface)
		if x.Ty == nil || y.Ty == nil || !types.Identical(x.Ty, y.Ty) {
			return VBool{BoolC(x.Ty == nil && y.Ty == nil)}
		}
		px, py := x.Val.(VPtr), y.Val.(VPtr)
		if px.Nil || py.Nil {
			return VBool{BoolC(px.Nil && py.Nil)}
		}
		return VBool{p.deepEq(px.load(), py.load())}
	})
	rt("ErrCode", func(p *Path, a []Value) Value {
		x := a[0].(VIface)
		if x.Ty == nil {
			return VStr{StrC("")}
		}
		if xe, ok := x.Val.(VErr); ok {
			return VStr{StrC(xe.Root)}
		}
		return VStr{StrC("?")}
	})
	// exact arithmetic helpers for oracles (mathematical integers as math.Int)
	rt("IntOfU64", func(p *Path, a []Value) Value { return VBig{T: tInt(a[0])} })
	rt("IntOfI64", func(p *Path, a []Value) Value { return VBig{T: tInt(a[0])} })
	rt("IntEq", func(p *Path, a []Value) Value { return VBool{Eq(bigT(a[0]), bigT(a[1]))} })
	rt("IntLt", func(p *Path, a []Value) Value { return VBool{Lt(bigT(a[0]), bigT(a[1]))} })
	rt("IntLe", func(p *Path, a []Value) Value { return VBool{Le(bigT(a[0]), bigT(a[1]))} })
	rt("IntAdd", func(p *Path, a []Value) Value { return VBig{T: Add(bigT(a[0]), bigT(a[1]))} })
	rt("IntSub", func(p *Path, a []Value) Value { return VBig{T: Sub(bigT(a[0]), bigT(a[1]))} })
	rt("IntMul", func(p *Path, a []Value) Value { return VBig{T: Mul(bigT(a[0]), bigT(a[1]))} })
	rt("IntDivFloor", func(p *Path, a []Value) Value { // floor division, divisor > 0 assumed
		return VBig{T: Div(bigT(a[0]), bigT(a[1]))}
	})
	rt("IntMin", func(p *Path, a []Value) Value {
		x, y := bigT(a[0]), bigT(a[1])
		return VBig{T: Ite(Le(x, y), x, y)}
	})
	rt("IntMax", func(p *Path, a []Value) Value {
		x, y := bigT(a[0]), bigT(a[1])
		return VBig{T: Ite(Ge(x, y), x, y)}
	})
	rt("DecRawOf", func(p *Path, a []Value) Value { return VBig{T: a[0].(VDec).T} })
	rt("TimeSec", func(p *Path, a []Value) Value { return VBig{T: a[0].(VTime).Sec} })
	rt("TimeNsec", func(p *Path, a []Value) Value { return VBig{T: a[0].(VTime).Nsec} })
	rt("TimeNanos", func(p *Path, a []Value) Value { // total ns since unix epoch, exact
		t := a[0].(VTime)
		return VBig{T: Add(Mul(t.Sec, IntC64(1000000000)), t.Nsec)}
	})
	rt("CloneBytes", func(p *Path, a []Value) Value {
		switch x := a[0].(type) {
		case VBlob:
			return x // marshalled values are immutable
		case VSlice:
			if x.Nil {
				return x
			}
			es := append([]Value{}, x.elems()...)
			return VSlice{Obj: p.newObj(&VArray{E: es}, "clone"), Len: len(es), Cap: len(es)}
		}
		panic(engErr("rt.CloneBytes on %T", a[0]))
	})
	rt("StrLen", func(p *Path, a []Value) Value { return VInt{StrLen(tStr(a[0]))} })
	// StrEq(a, b) == (a == b); the engine adds a structurally derived sufficient condition as a
	// disjunct so that equalities of rendered integers are provable by integer reasoning alone
	rt("StrEq", func(p *Path, a []Value) Value {
		x, y := tStr(a[0]), tStr(a[1])
		eq := Eq(x, y)
		if st := strEqStructural(x, y); st != nil {
			return VBool{Or(st, eq)}
		}
		return VBool{eq}
	})
	rt("IntStr", func(p *Path, a []Value) Value { return VStr{p.intToStrDecided(bigT(a[0]))} })
	rt("Pad9", func(p *Path, a []Value) Value { return VStr{padLeftZeros(bigT(a[0]), 9)} })
	rt("IntMod", func(p *Path, a []Value) Value { return VBig{T: Mod(bigT(a[0]), bigT(a[1]))} })
}

func registerCore(e *Engine) {
	in := e.intrinsics

	// ----- errors -----
	in["cosmossdk.io/errors.Register"] = func(p *Path, a []Value) Value {
		cs, _ := tStr(a[0]).ConstStr()
		code, _ := tInt(a[1]).ConstInt()
		desc, _ := tStr(a[2]).ConstStr()
		root := cs + "/"
		if code != nil {
			root += code.String()
		}
		return VPtr{Obj: p.newObj(VErr{Root: root, Msg: desc}, "err:"+root)}
	}
	in["cosmossdk.io/errors.RegisterWithGRPCCode"] = func(p *Path, a []Value) Value {
		cs, _ := tStr(a[0]).ConstStr()
		code, _ := tInt(a[1]).ConstInt()
		desc, _ := tStr(a[3]).ConstStr()
		return VPtr{Obj: p.newObj(VErr{Root: cs + "/" + code.String(), Msg: desc}, "err")}
	}
	errOf := func(v Value) (VErr, bool, bool) { // (err, isNil, ok)
		switch x := v.(type) {
		case VIface:
			if x.Ty == nil {
				return VErr{}, true, true
			}
			switch y := x.Val.(type) {
			case VErr:
				return y, false, true
			case VPtr:
				if y.Nil {
					return VErr{}, true, true
				}
				if ev, ok := y.load().(VErr); ok {
					return ev, false, true
				}
			}
		case VPtr:
			if x.Nil {
				return VErr{}, true, true
			}
			if ev, ok := x.load().(VErr); ok {
				return ev, false, true
			}
		}
		return VErr{}, false, false
	}
	wrap := func(p *Path, a []Value) Value {
		ev, isNil, ok := errOf(a[0])
		if isNil {
			return nilErr
		}
		if !ok {
			return p.eng.errVal("unknown", "wrapped")
		}
		return p.eng.errVal(ev.Root, ev.Msg)
	}
	for _, n := range []string{"cosmossdk.io/errors.Wrap", "cosmossdk.io/errors.Wrapf", "cosmossdk.io/errors.WithType",
		"(*cosmossdk.io/errors.Error).Wrap", "(*cosmossdk.io/errors.Error).Wrapf",
		"(cosmossdk.io/errors.Error).Wrap", "(cosmossdk.io/errors.Error).Wrapf",
		"github.com/cosmos/cosmos-sdk/types/errors.Wrap", "github.com/cosmos/cosmos-sdk/types/errors.Wrapf"} {
		in[n] = wrap
	}
	in["(*cosmossdk.io/errors.Error).Error"] = func(p *Path, a []Value) Value {
		ev, _, _ := errOf(a[0])
		return VStr{StrC(ev.Root + ": " + ev.Msg)}
	}
	in["(*cosmossdk.io/errors.Error).Is"] = func(p *Path, a []Value) Value {
		x, n1, ok1 := errOf(a[0])
		y, n2, ok2 := errOf(a[1])
		if n1 || n2 || !ok1 || !ok2 {
			return VBool{BoolC(n1 && n2)}
		}
		return VBool{BoolC(x.Root == y.Root)}
	}
	in["errors.Is"] = func(p *Path, a []Value) Value {
		x, n1, ok1 := errOf(a[0])
		y, n2, ok2 := errOf(a[1])
		if n1 || n2 || !ok1 || !ok2 {
			return VBool{BoolC(n1 && n2)}
		}
		return VBool{BoolC(x.Root == y.Root)}
	}
	in["errors.New"] = func(p *Path, a []Value) Value {
		s, _ := tStr(a[0]).ConstStr()
		return p.eng.errVal("errors.New/"+s, s)
	}
	in["fmt.Errorf"] = func(p *Path, a []Value) Value {
		s, _ := tStr(a[0]).ConstStr()
		return p.eng.errVal("fmt.Errorf/"+s, s)
	}
	in["google.golang.org/grpc/status.Error"] = func(p *Path, a []Value) Value {
		c, _ := tInt(a[0]).ConstInt()
		return p.eng.errVal("grpc/"+c.String(), "status")
	}
	in["google.golang.org/grpc/status.Errorf"] = in["google.golang.org/grpc/status.Error"]

	// ----- fmt / strconv -----
	in["fmt.Sprintf"] = func(p *Path, a []Value) Value {
		f, ok := tStr(a[0]).ConstStr()
		if ok {
			if t, done := p.symbolicFormat(f, a[1]); done {
				return VStr{t}
			}
		}
		if ok && !strings.Contains(f, "%") {
			return VStr{StrC(f)}
		}
		if ok {
			if s, ok := p.tryFormat(f, a[1]); ok {
				return VStr{StrC(s)}
			}
		}
		return VStr{p.opaqueString()}
	}
	in["fmt.Sprint"] = func(p *Path, a []Value) Value { return VStr{p.opaqueString()} }
	in["fmt.Println"] = func(p *Path, a []Value) Value { return tuple(VInt{IntC64(0)}, nilErr) }
	in["fmt.Printf"] = in["fmt.Println"]
	fmtInt := func(p *Path, a []Value) Value {
		if c, ok := tInt(a[0]).ConstInt(); ok {
			base := 10
			if len(a) > 1 {
				base = p.concreteInt(a[1], "base")
			}
			return VStr{StrC(c.Text(base))}
		}
		return VStr{p.opaqueString()}
	}
	in["strconv.FormatUint"] = fmtInt
	in["strconv.FormatInt"] = fmtInt
	in["strconv.Itoa"] = fmtInt
	in["strconv.FormatBool"] = func(p *Path, a []Value) Value {
		return VStr{Ite(tBool(a[0]), StrC("true"), StrC("false"))}
	}
	in["strconv.Quote"] = func(p *Path, a []Value) Value { return VStr{p.opaqueString()} }

	// ----- strings -----
	in["strings.TrimSpace"] = func(p *Path, a []Value) Value {
		if s, ok := tStr(a[0]).ConstStr(); ok {
			return VStr{StrC(strings.TrimSpace(s))}
		}
		// symbolic: model via uninterpreted "blank" — harnesses constrain strings to be
		// free of surrounding whitespace, so identity is exact under that assumption.
		p.hr.noteAssumption("strings.TrimSpace on symbolic string modelled as identity (harness inputs carry no surrounding whitespace)")
		return a[0]
	}
	in["strings.ToLower"] = func(p *Path, a []Value) Value {
		if s, ok := tStr(a[0]).ConstStr(); ok {
			return VStr{StrC(strings.ToLower(s))}
		}
		panic(engErr("strings.ToLower on symbolic string"))
	}
	in["strings.ToUpper"] = func(p *Path, a []Value) Value {
		if s, ok := tStr(a[0]).ConstStr(); ok {
			return VStr{StrC(strings.ToUpper(s))}
		}
		panic(engErr("strings.ToUpper on symbolic string"))
	}
	in["strings.Split"] = func(p *Path, a []Value) Value {
		s, ok1 := tStr(a[0]).ConstStr()
		sep, ok2 := tStr(a[1]).ConstStr()
		if !ok1 || !ok2 {
			panic(engErr("strings.Split on symbolic string"))
		}
		parts := strings.Split(s, sep)
		es := make([]Value, len(parts))
		for i, x := range parts {
			es[i] = VStr{StrC(x)}
		}
		return VSlice{Obj: p.newObj(&VArray{E: es}, "split"), Len: len(es), Cap: len(es)}
	}
	in["strings.Join"] = func(p *Path, a []Value) Value {
		sl := a[0].(VSlice)
		sep := tStr(a[1])
		var t *Term = StrC("")
		for i, ev := range sl.elems() {
			if i > 0 {
				t = StrConcat(t, sep)
			}
			t = StrConcat(t, tStr(ev))
		}
		return VStr{t}
	}
	in["strings.EqualFold"] = func(p *Path, a []Value) Value {
		x, ok1 := tStr(a[0]).ConstStr()
		y, ok2 := tStr(a[1]).ConstStr()
		if ok1 && ok2 {
			return VBool{BoolC(strings.EqualFold(x, y))}
		}
		panic(engErr("strings.EqualFold on symbolic strings"))
	}
	in["strings.Index"] = func(p *Path, a []Value) Value {
		x, ok1 := tStr(a[0]).ConstStr()
		y, ok2 := tStr(a[1]).ConstStr()
		if ok1 && ok2 {
			return VInt{IntC64(int64(strings.Index(x, y)))}
		}
		return VInt{mk("str.indexof", SInt, tStr(a[0]), tStr(a[1]), IntC64(0))}
	}
	// binary floating point on a symbolic decimal string: not encoded. On a path of a property
	// that demands exact decimal arithmetic this is reported as a candidate, stressed towards
	// amounts with more than 17 significant digits (whole nund, last digit 1).
	floatOnSym := func(what string) func(p *Path, a []Value) Value {
		return func(p *Path, a []Value) Value {
			st := tStr(a[0])
			if _, ok := st.ConstStr(); ok {
				panic(engErr("%s on a constant string is not modelled", what))
			}
			raw := App("decRawOfStr", SInt, st)
			nund := GoQuo(raw, IntC(big.NewInt(1000000000)))
			e17 := new(big.Int).Exp(big.NewInt(10), big.NewInt(17), nil)
			stress := And(Eq(Mod(raw, IntC(big.NewInt(1000000000))), IntC64(0)), Ge(nund, IntC(e17)), Eq(Mod(nund, IntC64(10)), IntC64(1)))
			panic(unmodelled{Label: "INV.exact-decimal-path-uses-binary-floating-point", Site: p.where(), Msg: what + " on a symbolic decimal string", Stress: stress})
		}
	}
	in["strconv.ParseFloat"] = floatOnSym("strconv.ParseFloat")
	in["strings.Contains"] = func(p *Path, a []Value) Value {
		x, ok1 := tStr(a[0]).ConstStr()
		y, ok2 := tStr(a[1]).ConstStr()
		if ok1 && ok2 {
			return VBool{BoolC(strings.Contains(x, y))}
		}
		return VBool{mk("str.contains", SBool, tStr(a[0]), tStr(a[1]))}
	}
	in["strings.HasPrefix"] = func(p *Path, a []Value) Value {
		x, ok1 := tStr(a[0]).ConstStr()
		y, ok2 := tStr(a[1]).ConstStr()
		if ok1 && ok2 {
			return VBool{BoolC(strings.HasPrefix(x, y))}
		}
		return VBool{mk("str.prefixof", SBool, tStr(a[1]), tStr(a[0]))}
	}

	// ----- bytes -----
	in["bytes.Equal"] = func(p *Path, a []Value) Value { return VBool{p.bytesEq(a[0], a[1])} }
	in["bytes.Compare"] = func(p *Path, a []Value) Value { return VInt{p.bytesCmp(a[0], a[1])} }
	in["bytes.HasPrefix"] = func(p *Path, a []Value) Value {
		x, y := a[0].(VSlice), a[1].(VSlice)
		if y.Len > x.Len {
			return VBool{tFalse}
		}
		return VBool{p.bytesEq(VSlice{Obj: x.Obj, Off: x.Off, Len: y.Len, Cap: y.Len, Nil: x.Nil && y.Len == 0}, y)}
	}

	// ----- encoding/binary -----
	put64 := func(p *Path, a []Value) Value {
		dst := a[len(a)-2].(VSlice)
		v := tInt(a[len(a)-1])
		if dst.Len < 8 {
			p.goPanicf("index out of range [7] with length %d", dst.Len)
		}
		arr := dst.Obj.V.(*VArray)
		es := make([]Value, len(arr.E))
		copy(es, arr.E)
		for i := 0; i < 8; i++ {
			es[dst.Off+i] = VInt{ByteOf(v, 7-i)}
		}
		if dst.Obj.frozen {
			panic(engErr("PutUint64 into shared object"))
		}
		dst.Obj.V = &VArray{E: es}
		return nil
	}
	get64 := func(p *Path, a []Value) Value {
		if bl, isBlob := a[len(a)-1].(VBlob); isBlob {
			panic(codecConfusion{Site: p.where(), Msg: fmt.Sprintf("value stored with codec.Marshal(%v) decoded as a raw big-endian uint64", bl.Ty)})
		}
		src := a[len(a)-1].(VSlice)
		if src.Len < 8 {
			p.goPanicf("index out of range [7] with length %d", src.Len)
		}
		es := src.elems()
		return VInt{combineBytes(es[:8])}
	}
	in["(encoding/binary.bigEndian).PutUint64"] = put64
	in["(encoding/binary.bigEndian).Uint64"] = get64

	// ----- sort (on concrete small slices only through models) -----
	in["(*sync.Mutex).Lock"] = func(p *Path, a []Value) Value { return nil }
	in["(*sync.Mutex).Unlock"] = func(p *Path, a []Value) Value { return nil }
	in["(*sync.RWMutex).Lock"] = func(p *Path, a []Value) Value { return nil }
	in["(*sync.RWMutex).Unlock"] = func(p *Path, a []Value) Value { return nil }
	in["(*sync.RWMutex).RLock"] = func(p *Path, a []Value) Value { return nil }
	in["(*sync.RWMutex).RUnlock"] = func(p *Path, a []Value) Value { return nil }
}

// combineBytes: big-endian combination; recognises bytes that came from the same PutUint64.
func combineBytes(es []Value) *Term {
	n := len(es)
	var src *Term
	all := true
	for i, ev := range es {
		t := ev.(VInt).T
		if t.byteSrc == nil || t.byteIdx != n-1-i {
			all = false
			break
		}
		if src == nil {
			src = t.byteSrc
		} else if src != t.byteSrc && !sameTerm(src, t.byteSrc) {
			all = false
			break
		}
	}
	if all && src != nil && n == 8 {
		return src
	}
	var sum *Term = IntC64(0)
	for i, ev := range es {
		sum = Add(sum, Mul(ev.(VInt).T, IntC(pow2(uint(8*(n-1-i))))))
	}
	return sum
}

func byteTerms(v Value) ([]*Term, bool) {
	switch s := v.(type) {
	case VSlice:
		es := s.elems()
		ts := make([]*Term, len(es))
		for i, ev := range es {
			ts[i] = ev.(VInt).T
		}
		return ts, true
	}
	return nil, false
}

// groupBytes: coalesce runs of 8 bytes stemming from one 64-bit value into that value.
type byteGroup struct {
	t     *Term
	width int // bytes
}

func groupBytes(ts []*Term) []byteGroup {
	var out []byteGroup
	for i := 0; i < len(ts); {
		if i+8 <= len(ts) && ts[i].byteSrc != nil && ts[i].byteIdx == 7 {
			src := ts[i].byteSrc
			ok := true
			for k := 1; k < 8; k++ {
				b := ts[i+k]
				if b.byteSrc == nil || b.byteIdx != 7-k || !(b.byteSrc == src || sameTerm(b.byteSrc, src)) {
					ok = false
					break
				}
			}
			if ok {
				out = append(out, byteGroup{src, 8})
				i += 8
				continue
			}
		}
		out = append(out, byteGroup{ts[i], 1})
		i++
	}
	return out
}

func constGroup(ts []*Term, i int) (*Term, bool) {
	// 8 constant bytes -> one constant 64-bit value
	v := new(big.Int)
	for k := 0; k < 8; k++ {
		c, ok := ts[i+k].ConstInt()
		if !ok {
			return nil, false
		}
		v.Lsh(v, 8)
		v.Or(v, c)
	}
	return IntC(v), true
}

// alignGroups brings two byte vectors of the same length to a common grouping.
func alignGroups(a, b []*Term) ([]byteGroup, []byteGroup) {
	ga, gb := groupBytes(a), groupBytes(b)
	// expand where the other side has no matching 8-group, unless it is constant there
	var ra, rb []byteGroup
	ia, ib := 0, 0
	pa, pb := 0, 0 // byte positions
	for ia < len(ga) && ib < len(gb) {
		x, y := ga[ia], gb[ib]
		if x.width == y.width {
			ra, rb = append(ra, x), append(rb, y)
			ia, ib, pa, pb = ia+1, ib+1, pa+x.width, pb+y.width
			continue
		}
		if x.width == 8 {
			if c, ok := constGroup(b, pb); ok {
				ra, rb = append(ra, x), append(rb, byteGroup{c, 8})
				ia, pa = ia+1, pa+8
				for w := 0; w < 8; w++ {
					ib++
				}
				pb += 8
				continue
			}
			// expand x
			for k := 0; k < 8; k++ {
				ra = append(ra, byteGroup{a[pa+k], 1})
				rb = append(rb, byteGroup{b[pb+k], 1})
			}
			ia, pa = ia+1, pa+8
			ib, pb = ib+8, pb+8
			continue
		}
		// y.width == 8
		if c, ok := constGroup(a, pa); ok {
			ra, rb = append(ra, byteGroup{c, 8}), append(rb, y)
			ib, pb = ib+1, pb+8
			ia, pa = ia+8, pa+8
			continue
		}
		for k := 0; k < 8; k++ {
			ra = append(ra, byteGroup{a[pa+k], 1})
			rb = append(rb, byteGroup{b[pb+k], 1})
		}
		ib, pb = ib+1, pb+8
		ia, pa = ia+8, pa+8
	}
	return ra, rb
}

func (p *Path) bytesEq(x, y Value) *Term {
	// marshalled values: protobuf encoding is assumed injective per message type, and a store
	// key always holds one kind of value; blobs are equal iff the values they encode are
	bx, isBx := x.(VBlob)
	by, isBy := y.(VBlob)
	if isBx && isBy {
		if !types.Identical(bx.Ty, by.Ty) {
			return tFalse
		}
		return p.deepEq(bx.Val, by.Val)
	}
	if isBx || isBy {
		return tFalse
	}
	a, ok1 := byteTerms(x)
	b, ok2 := byteTerms(y)
	if !ok1 || !ok2 {
		panic(engErr("bytes.Equal on %T,%T", x, y))
	}
	if len(a) != len(b) {
		return tFalse
	}
	ga, gb := alignGroups(a, b)
	var cs []*Term
	for i := range ga {
		c := Eq(ga[i].t, gb[i].t)
		if v, ok := c.ConstBool(); ok && !v {
			return tFalse
		}
		cs = append(cs, c)
	}
	return And(cs...)
}

// bytesCmp returns -1/0/+1 as an Int term (lexicographic).
func (p *Path) bytesCmp(x, y Value) *Term {
	a, ok1 := byteTerms(x)
	b, ok2 := byteTerms(y)
	if !ok1 || !ok2 {
		panic(engErr("bytes.Compare on %T,%T", x, y))
	}
	n := len(a)
	if len(b) < n {
		n = len(b)
	}
	ga, gb := alignGroups(a[:n], b[:n])
	var tail *Term
	switch {
	case len(a) < len(b):
		tail = IntC64(-1)
	case len(a) > len(b):
		tail = IntC64(1)
	default:
		tail = IntC64(0)
	}
	res := tail
	for i := len(ga) - 1; i >= 0; i-- {
		lt := Lt(ga[i].t, gb[i].t)
		gt := Gt(ga[i].t, gb[i].t)
		res = Ite(lt, IntC64(-1), Ite(gt, IntC64(1), res))
	}
	res.lo, res.hi = bi(-1), bi(1)
	return res
}

func (p *Path) opaqueString() *Term {
	p.nfresh++
	return App("opaqueStr", SStr, IntC64(int64(p.nfresh)))
}

// tryFormat handles the simplest constant cases of Sprintf.
func (p *Path) tryFormat(f string, varargs Value) (string, bool) {
	sl, ok := varargs.(VSlice)
	if !ok {
		return "", false
	}
	var args []interface{}
	for _, ev := range sl.elems() {
		iv, ok := ev.(VIface)
		if !ok {
			return "", false
		}
		switch x := iv.Val.(type) {
		case VStr:
			s, ok := x.T.ConstStr()
			if !ok {
				return "", false
			}
			args = append(args, s)
		case VInt:
			c, ok := x.T.ConstInt()
			if !ok {
				return "", false
			}
			args = append(args, c)
		default:
			return "", false
		}
	}
	return fmt.Sprintf(f, args...), true
}

var _ = strconv.Itoa
var _ = types.Typ

// symbolicFormat handles format strings made only of literal text, %s (string argument), %d
// (integer argument) and %0Nd (zero-padded, N <= 18, argument proved to be in [0, 10^N)) with
// possibly symbolic arguments, producing an exact SMT string term.
func (p *Path) symbolicFormat(f string, varargs Value) (*Term, bool) {
	sl, ok := varargs.(VSlice)
	if !ok {
		return nil, false
	}
	args := sl.elems()
	out := StrC("")
	ai := 0
	allConst := true
	for i := 0; i < len(f); {
		if f[i] != '%' {
			j := i
			for j < len(f) && f[j] != '%' {
				j++
			}
			out = StrConcat(out, StrC(f[i:j]))
			i = j
			continue
		}
		// verb
		j := i + 1
		pad := 0
		if j < len(f) && f[j] == '0' {
			k := j + 1
			for k < len(f) && f[k] >= '0' && f[k] <= '9' {
				pad = pad*10 + int(f[k]-'0')
				k++
			}
			j = k
		}
		if j >= len(f) || ai >= len(args) {
			return nil, false
		}
		iv, ok := args[ai].(VIface)
		if !ok {
			return nil, false
		}
		ai++
		switch f[j] {
		case 's':
			sv, ok := iv.Val.(VStr)
			if !ok || pad != 0 {
				return nil, false
			}
			if _, c := sv.T.ConstStr(); !c {
				allConst = false
			}
			out = StrConcat(out, sv.T)
		case 'd':
			nv, ok := iv.Val.(VInt)
			if !ok {
				return nil, false
			}
			if _, c := nv.T.ConstInt(); !c {
				allConst = false
			}
			if pad == 0 {
				out = StrConcat(out, intToStr(nv.T))
			} else {
				if pad > 18 {
					return nil, false
				}
				p10 := new(big.Int).Exp(bi(10), bi(int64(pad)), nil)
				inRange := And(Ge(nv.T, IntC64(0)), Lt(nv.T, IntC(p10)))
				if !p.Decide(inRange) {
					return nil, false // wider than the pad or negative: fall back to an opaque string
				}
				out = StrConcat(out, padLeftZeros(nv.T, pad))
			}
		default:
			return nil, false
		}
		i = j + 1
	}
	if ai != len(args) || allConst {
		return nil, false // constant case is handled by tryFormat
	}
	return out, true
}
