package main

import (
	"crypto/sha256"
	"encoding/json"
	"flag"
	"fmt"
	"os"
	"os/exec"
	"path/filepath"
	"sort"
	"strconv"
	"strings"
	"time"
)

type KnownFinding struct {
	ID       string `json:"id"`
	Property string `json:"property"`
	Harness  string `json:"harness,omitempty"`
	Site     string `json:"site,omitempty"`
	Text     string `json:"text"`
}
type KnownFile struct {
	Findings []KnownFinding `json:"findings"`
	Fixed    []string       `json:"fixed"`
}

type Registry struct {
	Extra map[string][]string       `json:"extra"` // property -> additional harness names
	Opts  map[string]HarnessOpts    `json:"opts"`  // harness -> options
	Tier  map[string]map[string]HarnessOpts `json:"tier_opts"` // tier -> harness -> options
	Skip  map[string][]string       `json:"quick_skip"` // property -> harnesses only run in thorough
	NativeSelf map[string][]string  `json:"native_selfcheck"` // property -> extra wiring harnesses whose native face is run on every check (trusted-base self-checks)
	BorrowQ map[string][]string     `json:"borrowed_quick"` // property -> harnesses of another property that keep the quick bounds in this property's thorough tier
	Wiring map[string][]string      `json:"wiring"` // property -> harnesses of package w (loads the application package)
	Bounds map[string]string        `json:"bounds"` // harness -> human description of bounds
	Assume map[string][]string      `json:"assumptions"` // property -> assumptions text
}

func loadJSON(path string, v interface{}) error {
	b, err := os.ReadFile(path)
	if err != nil {
		return err
	}
	return json.Unmarshal(b, v)
}

func main() {
	if len(os.Args) < 2 {
		fmt.Println("usage: vcheck run <PROP> [--tier quick|thorough] | harness <H_name> | list | replay <file>")
		os.Exit(2)
	}
	switch os.Args[1] {
	case "run":
		os.Exit(cmdRun(os.Args[2:]))
	case "harness":
		os.Exit(cmdHarness(os.Args[2:]))
	case "list":
		e, err := LoadEngine([]string{"./zz_verif/h"})
		if err != nil {
			fmt.Println("load:", err)
			os.Exit(2)
		}
		for _, h := range e.harnesses() {
			fmt.Println(h)
		}
	case "replay":
		os.Exit(cmdReplay(os.Args[2:]))
	default:
		fmt.Println("unknown command")
		os.Exit(2)
	}
}

func tierFromEnv(def string) string {
	if t := os.Getenv("VERIF_TIER"); t == "quick" || t == "thorough" {
		return t
	}
	return def
}

func cmdHarness(args []string) int {
	fs := flag.NewFlagSet("harness", flag.ExitOnError)
	tier := fs.String("tier", "quick", "tier")
	workers := fs.Int("workers", 14, "workers")
	tmo := fs.Int("timeout", 20000, "solver timeout ms")
	solvers := fs.String("solvers", "z3new,cvc5,z3", "solver order")
	noReplay := fs.Bool("noreplay", false, "skip native replay")
	propF := fs.String("prop", "", "restrict Cxx.-prefixed assertions to this property")
	loopB := fs.Int("loopbound", 0, "loop unrolling bound (0 = default)")
	fs.Parse(args[1:])
	name := args[0]
	t0 := time.Now()
	pats := []string{"./zz_verif/h"}
	if isWiringHarness(name) {
		pats = []string{"./zz_verif/w"}
	}
	e, err := LoadEngine(pats)
	if err != nil {
		fmt.Println("load:", err)
		return 2
	}
	fmt.Printf("loaded in %.1fs\n", time.Since(t0).Seconds())
	kf := KnownFile{}
	loadJSON(filepath.Join(verifDir, "known_findings.json"), &kf)
	known := map[string]bool{}
	for _, f := range kf.Findings {
		known[f.ID] = true
	}
	hr := e.RunHarness(*propF, name, *tier, HarnessOpts{Workers: *workers, TimeoutMs: *tmo, Solvers: strings.Split(*solvers, ","), LoopBound: *loopB}, known)
	printHarness(hr, true)
	if !*noReplay && len(hr.Viol) > 0 {
		rp := newReplayer()
		if isWiringHarness(name) {
			rp = newWiringReplayer()
		}
		for i := range hr.Viol {
			rp.replay(&hr.Viol[i], "DEBUG")
			fmt.Printf("  replay %s [%s]: %s\n", hr.Viol[i].Label, hr.Viol[i].Known, hr.Viol[i].Replay)
		}
	}
	return 0
}

func printHarness(hr *HarnessRun, verbose bool) {
	fmt.Printf("== %s: paths=%d ended=%v wall=%.1fs queries=%v time=%v unknown=%d fallbacks=%d\n", hr.Name, hr.Paths, hr.PathsEnded, hr.WallS, hr.Stats.Queries, fmtTimes(hr.Stats.TimeS), hr.Stats.Unknown, hr.Stats.Fallbk)
	var labels []string
	for l := range hr.Asserts {
		labels = append(labels, l)
	}
	sort.Strings(labels)
	for _, l := range labels {
		s := hr.Asserts[l]
		fmt.Printf("   %-50s checked=%d syntactic=%d unsat=%d sat=%d unknown=%d\n", l, s.Checked, s.Syntactic, s.Unsat, s.Sat, s.Unknown)
	}
	for l := range hr.ReachSeen {
		fmt.Printf("   reach %-44s %v\n", l, hr.Reach[l])
	}
	for _, x := range hr.EngineErr {
		fmt.Println("   ENGINE:", x)
	}
	for _, x := range hr.BoundErr {
		fmt.Println("   BOUND:", x)
	}
	for _, x := range hr.UnknownBr {
		fmt.Println("   UNKNOWN-BRANCH at", x)
	}
	if verbose {
		for _, v := range hr.Viol {
			b, _ := json.Marshal(v)
			fmt.Println("   CEX:", string(b))
		}
		for n := range hr.Nondet {
			fmt.Println("   nondet:", n)
		}
	}
}

func fmtTimes(m map[string]float64) string {
	var parts []string
	for k, v := range m {
		parts = append(parts, fmt.Sprintf("%s:%.1fs", k, v))
	}
	sort.Strings(parts)
	return strings.Join(parts, " ")
}

// ---------- native replay ----------

type replayer struct {
	built bool
	err   error
	bin   string
	cmd   string
}

func newReplayer() *replayer {
	return &replayer{bin: filepath.Join(verifDir, "build", "replay.bin"), cmd: "./zz_verif/cmd/replay"}
}

// wiring harnesses (package w, imports the whole application) replay through their own binary
func newWiringReplayer() *replayer {
	return &replayer{bin: filepath.Join(verifDir, "build", "replayw.bin"), cmd: "./zz_verif/cmd/replayw"}
}

func isWiringHarness(name string) bool { return strings.Contains(name, "_Wiring") || strings.HasSuffix(name, "_W") }

func (r *replayer) build() error {
	if r.built {
		return r.err
	}
	r.built = true
	ov, err := buildOverlay()
	if err != nil {
		r.err = err
		return err
	}
	rep := map[string]string{}
	root := filepath.Join(verifDir, "harness", "overlay")
	for virt := range ov {
		rel, _ := filepath.Rel(repoDir, virt)
		rep[virt] = filepath.Join(root, rel)
		if filepath.Base(virt) == "zz_registry.go" {
			rep[virt] = filepath.Join(verifDir, "build", "gen", filepath.Base(filepath.Dir(virt)), "zz_registry.go")
		}
	}
	b, _ := json.Marshal(map[string]interface{}{"Replace": rep})
	ovFile := filepath.Join(verifDir, "build", "overlay.json")
	os.WriteFile(ovFile, b, 0o644)
	cmd := exec.Command("go", "build", "-overlay", ovFile, "-modfile="+filepath.Join(verifDir, "build", "go.mod"), "-o", r.bin, r.cmd)
	cmd.Dir = repoDir
	cmd.Env = goEnv()
	out, err := cmd.CombinedOutput()
	if err != nil {
		r.err = fmt.Errorf("native replay build failed: %v\n%s", err, out)
	}
	return r.err
}

// replay runs the violation natively; sets v.Replay and v.Path.
func (r *replayer) replay(v *Violation, prop string) {
	dir := filepath.Join(verifDir, "replays", prop)
	os.MkdirAll(dir, 0o755)
	b, _ := json.MarshalIndent(v, "", " ")
	h := sha256.Sum256(b)
	path := filepath.Join(dir, fmt.Sprintf("%s-%x.json", v.Harness, h[:6]))
	os.WriteFile(path, b, 0o644)
	v.Path = path
	if err := r.build(); err != nil {
		v.Replay = "build-failed: " + err.Error()
		return
	}
	v.Replay = runReplay(r.bin, path, v)
}

func runReplay(bin, path string, v *Violation) string {
	tries := 1
	if strings.HasPrefix(v.Harness, "H_C01_") {
		tries = 40 // Go's map iteration order and the wall clock cannot be pinned natively
	}
	res := ""
	for i := 0; i < tries; i++ {
		res = runReplayOnce(bin, path, v)
		if res == "reproduced" {
			return res
		}
	}
	// the failing condition may depend on how a decimal input is spelled, which the encoding
	// does not fix (the parser is uninterpreted): try value-preserving respellings
	orig, _ := os.ReadFile(path)
	for _, name := range v.DecIn {
		cur, ok := v.Inputs[name]
		if !ok || !strings.HasPrefix(cur, "s:") {
			continue
		}
		for _, alt := range decVariants(strings.TrimPrefix(cur, "s:")) {
			v.Inputs[name] = "s:" + alt
			b, _ := json.MarshalIndent(v, "", " ")
			os.WriteFile(path, b, 0o644)
			if r := runReplayOnce(bin, path, v); r == "reproduced" {
				return r
			}
		}
		v.Inputs[name] = cur
	}
	if orig != nil {
		os.WriteFile(path, orig, 0o644)
	}
	return res
}

func runReplayOnce(bin, path string, v *Violation) string {
	cmd := exec.Command("timeout", "120", bin, path)
	cmd.Dir = filepath.Join(verifDir, "build")
	out, _ := cmd.CombinedOutput()
	s := string(out)
	want := ""
	if v.Kind == "panic" {
		want = "REPLAY-PANIC"
	} else {
		want = "REPLAY-ASSERT-FAILED " + v.Label
	}
	for _, line := range strings.Split(s, "\n") {
		if strings.HasPrefix(line, want) {
			return "reproduced"
		}
		// a codec-confusion candidate ends the symbolic path where the bytes stop being modelled:
		// it is confirmed by whatever the real run does with those bytes — a panic, or any
		// assertion of the property under check failing
		if v.Kind == "codec-confusion" || v.Kind == "unmodelled" {
			if strings.HasPrefix(line, "REPLAY-PANIC") {
				return "reproduced"
			}
			if l, ok := strings.CutPrefix(line, "REPLAY-ASSERT-FAILED "); ok && labelApplies(strings.TrimSpace(l), v.Prop) {
				return "reproduced"
			}
		}
	}
	return "not-reproduced: " + shorten(strings.ReplaceAll(s, "\n", " | "), 400)
}

func cmdReplay(args []string) int {
	if len(args) < 1 {
		fmt.Println("usage: vcheck replay <file>")
		return 2
	}
	var v Violation
	if err := loadJSON(args[0], &v); err != nil {
		fmt.Println(err)
		return 2
	}
	if err := prepareBuildDir(); err != nil {
		fmt.Println(err)
		return 2
	}
	r := newReplayer()
	if isWiringHarness(v.Harness) {
		r = newWiringReplayer()
	}
	if err := r.build(); err != nil {
		fmt.Println(err)
		return 2
	}
	res := runReplay(r.bin, args[0], &v)
	fmt.Println("replay:", res)
	if res == "reproduced" {
		return 1
	}
	return 0
}

// ---------- property run ----------

func cmdRun(args []string) int {
	if len(args) < 1 {
		fmt.Println("usage: vcheck run <PROP> [--tier quick|thorough]")
		return 2
	}
	prop := args[0]
	fs := flag.NewFlagSet("run", flag.ExitOnError)
	tierF := fs.String("tier", "", "tier")
	fs.Parse(args[1:])
	tier := *tierF
	if tier == "" {
		tier = tierFromEnv("quick")
	}
	seed := 0
	if s := os.Getenv("VERIF_SEED"); s != "" {
		seed, _ = strconv.Atoi(s)
	}
	t0 := time.Now()
	reg := Registry{}
	if err := loadJSON(filepath.Join(verifDir, "harness", "registry.json"), &reg); err != nil {
		fmt.Println("registry:", err)
		return 2
	}
	kf := KnownFile{}
	loadJSON(filepath.Join(verifDir, "known_findings.json"), &kf)
	known := map[string]bool{}
	knownText := map[string]string{}
	for _, f := range kf.Findings {
		if f.Property == prop {
			known[f.ID] = true
			knownText[f.ID] = f.Text
		}
	}
	pats := []string{"./zz_verif/h"}
	if len(reg.Wiring[prop]) > 0 {
		pats = append(pats, "./zz_verif/w")
	}
	e, err := LoadEngine(pats)
	if err != nil {
		fmt.Println("ENGINE: load failed:", err)
		writeEvidence(prop, tier, seed, nil, nil, time.Since(t0).Seconds(), []string{"load failed: " + err.Error()}, reg)
		return 2
	}
	loadS := time.Since(t0).Seconds()
	var names []string
	for _, h := range e.harnesses() {
		if strings.HasPrefix(h, "H_"+prop+"_") {
			names = append(names, h)
		}
	}
	names = append(names, reg.Extra[prop]...)
	for _, w := range reg.Wiring[prop] {
		dup := false
		for _, n := range names {
			if n == w {
				dup = true
			}
		}
		if !dup {
			names = append(names, w)
		}
	}
	if tier == "quick" {
		skip := map[string]bool{}
		for _, s := range reg.Skip[prop] {
			skip[s] = true
		}
		var nn []string
		for _, n := range names {
			if !skip[n] {
				nn = append(nn, n)
			}
		}
		names = nn
	}
	if len(names) == 0 {
		fmt.Println("ENGINE: no harness for", prop)
		return 2
	}
	// seed only permutes harness order
	if seed != 0 {
		r := uint64(seed)*6364136223846793005 + 1442695040888963407
		for i := len(names) - 1; i > 0; i-- {
			r = r*6364136223846793005 + 1442695040888963407
			j := int((r >> 33) % uint64(i+1))
			names[i], names[j] = names[j], names[i]
		}
	}
	fmt.Printf("property %s tier %s: %d harnesses (load %.1fs)\n", prop, tier, len(names), loadS)
	var runs []*HarnessRun
	rp := newReplayer()
	rpw := newWiringReplayer()
	status := 0
	bump := func(s int) {
		if s == 1 || (s == 2 && status == 0) {
			status = s
		}
	}
	var problems []string
	knownSeen := map[string]bool{}
	for _, n := range names {
		opts := reg.Opts[n]
		ht := tier
		if tier == "thorough" {
			for _, b := range reg.BorrowQ[prop] {
				if b == n {
					ht = "quick" // deep bounds of this harness are explored under its owner properties
				}
			}
		}
		if to, ok := reg.Tier[ht][n]; ok {
			opts = to
		}
		hr := e.RunHarness(prop, n, ht, opts, known)
		runs = append(runs, hr)
		printHarness(hr, false)
		if len(hr.EngineErr) > 0 {
			bump(2)
			problems = append(problems, n+": ENGINE "+hr.EngineErr[0])
		}
		if len(hr.BoundErr) > 0 {
			bump(2)
			problems = append(problems, n+": BOUND "+hr.BoundErr[0])
		}
		for _, st := range hr.Asserts {
			if st.Unknown > 0 {
				bump(2)
				problems = append(problems, fmt.Sprintf("%s: UNKNOWN %s (%d)", n, st.Label, st.Unknown))
			}
		}
		if prop == "C01" && len(hr.GlobalW) > 0 {
			bump(2)
			for g := range hr.GlobalW {
				problems = append(problems, n+": HIDDEN-STATE write to package-level variable "+g+" on a consensus path (not in any store: invisible to the app hash, lost on restart)")
			}
		}
		if len(hr.UnknownBr) > 0 {
			// undecided branch feasibility keeps both sides: sound, but record it
			problems = append(problems, fmt.Sprintf("%s: note: %d branch feasibility queries undecided (both sides explored)", n, len(hr.UnknownBr)))
		}
		for l := range hr.ReachSeen {
			if !hr.Reach[l] {
				bump(2)
				problems = append(problems, n+": VACUOUS reach witness missing: "+l)
			}
		}
		if hr.Paths == 0 {
			bump(2)
		}
		for i := range hr.Viol {
			v := &hr.Viol[i]
			if isWiringHarness(v.Harness) {
				rpw.replay(v, prop)
			} else {
				rp.replay(v, prop)
			}
			if v.Replay == "reproduced" {
				if v.Known != "" {
					if !knownSeen[v.Known] {
						knownSeen[v.Known] = true
						fmt.Printf("KNOWN-FINDING: property=%s %s: %s (instance: %s)\n", prop, v.Known, knownText[v.Known], v.Path)
					}
				} else {
					fmt.Printf("VIOLATION property=%s replay=%s\n", prop, v.Path)
					fmt.Printf("  harness=%s label=%s kind=%s %s inputs=%v choices=%v\n", v.Harness, v.Label, v.Kind, v.Msg, v.Inputs, v.Choices)
					bump(1)
				}
			} else {
				bump(2)
				problems = append(problems, fmt.Sprintf("%s: counterexample for %s did not reproduce natively (%s) — encoding or stub wrong", n, v.Label, v.Replay))
			}
		}
	}
	// Native self-check: the native faces of this property's wiring harnesses (reflection on the
	// real application, probes through the real CheckTx / gateway / command tree / RunMigrations,
	// the bank-model differential) are executed on every run, not only to confirm a static
	// counterexample. A native face that fails while the symbolic/static face holds means that the
	// two views of the code disagree (a stub, a model or a probe is wrong, or the static fact does
	// not capture the behaviour): inconclusive, never a pass.
	if status != 1 {
		var selfNames []string
		for _, n := range names {
			if isWiringHarness(n) {
				selfNames = append(selfNames, n)
			}
		}
		var nativeRan []string
		for _, n := range selfNames {
			v := &Violation{Harness: n, Prop: prop, Tier: tier, Label: "native-selfcheck", Kind: "selfcheck", Inputs: map[string]string{}, Choices: []int{}}
			if err := rpw.build(); err != nil {
				bump(2)
				problems = append(problems, n+": native self-check could not be built: "+err.Error())
				break
			}
			dir := filepath.Join(verifDir, "build")
			b, _ := json.Marshal(v)
			f := filepath.Join(dir, "selfcheck_"+n+".json")
			os.WriteFile(f, b, 0o644)
			cmd := exec.Command("timeout", "300", rpw.bin, f)
			cmd.Dir = dir
			out, _ := cmd.CombinedOutput()
			os.Remove(f)
			ok := false
			for _, line := range strings.Split(string(out), "\n") {
				if strings.HasPrefix(line, "REPLAY-OK") || strings.HasPrefix(line, "REPLAY-ASSUME-FAILED") {
					ok = true
				}
			}
			if !ok {
				bump(2)
				problems = append(problems, fmt.Sprintf("%s: NATIVE SELF-CHECK failed while the symbolic face holds: %s", n, shorten(strings.ReplaceAll(string(out), "\n", " | "), 500)))
			} else {
				nativeRan = append(nativeRan, n)
			}
		}
		if len(nativeRan) > 0 {
			fmt.Printf("native self-check ok: %s\n", strings.Join(nativeRan, " "))
		}
		nativeSelfRan = nativeRan
	}
	for _, pr := range problems {
		fmt.Println("PROBLEM:", pr)
	}
	wall := time.Since(t0).Seconds()
	writeEvidence(prop, tier, seed, runs, knownSeen, wall, problems, reg)
	switch status {
	case 0:
		fmt.Printf("PASS property=%s tier=%s wall=%.1fs\n", prop, tier, wall)
	case 1:
		fmt.Printf("FAIL property=%s\n", prop)
	default:
		fmt.Printf("INCONCLUSIVE property=%s (engine/unknown/bound/vacuity problems)\n", prop)
	}
	return status
}

// native faces of wiring harnesses executed (and passed) by the native self-check of this run
var nativeSelfRan []string

func writeEvidence(prop, tier string, seed int, runs []*HarnessRun, knownSeen map[string]bool, wall float64, problems []string, reg Registry) {
	type hsum struct {
		Name      string             `json:"name"`
		Paths     int                `json:"paths"`
		Ended     map[string]int     `json:"paths_ended"`
		Asserts   []*AssertStat      `json:"obligations"`
		Reach     map[string]bool    `json:"reach_witnesses"`
		Queries   map[string]int     `json:"solver_queries"`
		TimeS     map[string]float64 `json:"solver_time_s"`
		Unknown   int                `json:"solver_unknown"`
		WallS     float64            `json:"wall_s"`
		Bounds    string             `json:"bounds,omitempty"`
		Nondet    []string           `json:"nondeterminism_sources,omitempty"`
		MapRanges []string           `json:"map_ranges_permuted,omitempty"`
	}
	funcs := map[string]bool{}
	var hs []hsum
	obl, dis, synt, queries, viol := 0, 0, 0, 0, 0
	var samples []interface{}
	solverTime := map[string]float64{}
	assum := map[string]bool{}
	var knownList []string
	for _, hr := range runs {
		h := hsum{Name: hr.Name, Paths: hr.Paths, Ended: hr.PathsEnded, Reach: hr.Reach, Queries: hr.Stats.Queries, TimeS: hr.Stats.TimeS, Unknown: hr.Stats.Unknown, WallS: hr.WallS, Bounds: reg.Bounds[hr.Name]}
		var labels []string
		for l := range hr.Asserts {
			labels = append(labels, l)
		}
		sort.Strings(labels)
		for _, l := range labels {
			s := hr.Asserts[l]
			h.Asserts = append(h.Asserts, s)
			obl += s.Checked
			dis += s.Unsat + s.Syntactic
			synt += s.Syntactic
		}
		for f := range hr.funcs {
			funcs[f] = true
		}
		for k, v := range hr.Stats.Queries {
			queries += v
			_ = k
		}
		for k, v := range hr.Stats.TimeS {
			solverTime[k] += v
		}
		for n := range hr.Nondet {
			h.Nondet = append(h.Nondet, n)
		}
		for n := range hr.MapRanges {
			h.MapRanges = append(h.MapRanges, n)
		}
		for a := range hr.Assumps {
			assum[a] = true
		}
		for _, a := range reg.Assume[hr.Name] { // harness-specific stubs/assumptions
			assum[hr.Name+": "+a] = true
		}
		for i, s := range hr.Samples {
			if i < 3 {
				samples = append(samples, s)
			}
		}
		for _, v := range hr.Viol {
			if v.Known == "" && v.Replay == "reproduced" {
				viol++
			}
			samples = append(samples, v)
		}
		hs = append(hs, h)
	}
	for k := range knownSeen {
		knownList = append(knownList, k)
	}
	sort.Strings(knownList)
	var fl []string
	for f := range funcs {
		if strings.Contains(f, "zz_verif/") {
			continue
		}
		fl = append(fl, f)
	}
	sort.Strings(fl)
	if len(samples) == 0 {
		samples = append(samples, "no obligations generated")
	}
	assumptions := append([]string{}, reg.Assume["*"]...)
	assumptions = append(assumptions, reg.Assume[prop]...)
	for a := range assum {
		assumptions = append(assumptions, a)
	}
	ev := map[string]interface{}{
		"property_id": prop,
		"tier":        tier,
		"seed":        seed,
		"level":       "other",
		"wall_s":      wall,
		"violations":  viol,
		"assumptions": assumptions,
		"coverage": map[string]interface{}{
			"explanation": "Bounded symbolic verification: the repo's functions are loaded from /repo's working tree as go/ssa, executed symbolically by the symgo engine (inputs, pre-state fields, block time and parameters are SMT variables; structure such as list lengths and actor identities is enumerated by forking), and every harness assertion / implicit panic site on every feasible path is an SMT query (path condition ∧ ¬assertion) decided by z3 5.1 / cvc5 1.0 / z3 4.8. unsat = holds for all values within the stated bounds; sat = model, replayed against the natively compiled code before being reported.",
			"native_selfcheck": nativeSelfRan,
			"trusted_base": []string{
				"symgo engine: go/ssa executor and its intrinsics for math.Int / LegacyDec / Coins / time / bech32 / codec (concrete differential against the native SDK: H_C10_SelfTestIntrinsics; repository test vectors: H_C1x_SelfTestVectors)",
				"zz_verif/model/bank.go ledger model of x/bank + x/auth (differential against the real keepers: H_C04_WiringBankModel, run natively in the self-check of C04/C05)",
				"zz_verif/model/store.go ordered-map model of the KV store (differential against the real store: H_C20_WiringStoreModel)",
				"SMT solvers z3 5.1.0 (z3-new), cvc5 1.0, z3 4.8.12; unsat verdicts are trusted, sat verdicts are replayed natively",
				"Go 1.23 toolchain and cosmos-sdk v0.47.13 for the native replay",
			},
			"obligations":          obl,
			"discharged":           dis,
			"discharged_syntactic": synt,
			"evaluations":          queries,
			"distinct_nontrivial":  obl - synt,
			"rule":                 "evaluations = SMT check-sat calls issued (branch feasibility + obligations); an obligation is one assertion or panic site on one explored path; it is non-trivial when its condition did not fold to true by constant propagation, i.e. it needed a solver verdict",
			"samples":              samples,
			"functions_encoded":    fl,
			"n_functions_encoded":  len(fl),
			"harnesses":            hs,
			"solver_time_s":        solverTime,
			"known_findings_seen":  knownList,
			"problems":             problems,
			"checker_cmd":          "/verif/bin/vcheck run " + prop + " --tier " + tier,
		},
	}
	b, _ := json.MarshalIndent(ev, "", " ")
	os.MkdirAll(filepath.Join(verifDir, "evidence"), 0o755)
	os.WriteFile(filepath.Join(verifDir, "evidence", prop+".json"), b, 0o644)
}
