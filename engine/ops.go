package main

import (
	"go/token"
	"go/types"
	"math"
	"math/big"
)

func mathFloat64bits(f float64) uint64 { return math.Float64bits(f) }

func (p *Path) binop(op token.Token, x, y Value, xt, yt, rt types.Type) Value {
	switch a := x.(type) {
	case VInt:
		b, ok := y.(VInt)
		if !ok {
			panic(engErr("binop int with %T", y))
		}
		return p.intBinop(op, a.T, b.T, xt, yt, rt)
	case VBool:
		b := y.(VBool)
		switch op {
		case token.EQL:
			return VBool{Eq(a.T, b.T)}
		case token.NEQ:
			return VBool{Not(Eq(a.T, b.T))}
		case token.AND, token.LAND:
			return VBool{And(a.T, b.T)}
		case token.OR, token.LOR:
			return VBool{Or(a.T, b.T)}
		}
	case VStr:
		b := y.(VStr)
		switch op {
		case token.ADD:
			return VStr{StrConcat(a.T, b.T)}
		case token.EQL:
			return VBool{Eq(a.T, b.T)}
		case token.NEQ:
			return VBool{Not(Eq(a.T, b.T))}
		case token.LSS:
			return VBool{StrLt(a.T, b.T)}
		case token.GTR:
			return VBool{StrLt(b.T, a.T)}
		case token.LEQ:
			return VBool{Not(StrLt(b.T, a.T))}
		case token.GEQ:
			return VBool{Not(StrLt(a.T, b.T))}
		}
	case VFloat:
		b := y.(VFloat)
		switch op {
		case token.ADD:
			return VFloat{T: fpBin("fp.add", a.T, b.T)}
		case token.SUB:
			return VFloat{T: fpBin("fp.sub", a.T, b.T)}
		case token.MUL:
			return VFloat{T: fpBin("fp.mul", a.T, b.T)}
		case token.QUO:
			return VFloat{T: fpBin("fp.div", a.T, b.T)}
		case token.EQL:
			return VBool{mk("fp.eq", SBool, a.T, b.T)}
		case token.NEQ:
			return VBool{Not(mk("fp.eq", SBool, a.T, b.T))}
		case token.LSS:
			return VBool{mk("fp.lt", SBool, a.T, b.T)}
		case token.LEQ:
			return VBool{mk("fp.leq", SBool, a.T, b.T)}
		case token.GTR:
			return VBool{mk("fp.gt", SBool, a.T, b.T)}
		case token.GEQ:
			return VBool{mk("fp.geq", SBool, a.T, b.T)}
		}
	}
	switch op {
	case token.EQL:
		return VBool{p.eqValues(x, y)}
	case token.NEQ:
		return VBool{Not(p.eqValues(x, y))}
	}
	panic(engErr("unsupported binop %v on %T,%T in %s", op, x, y, p.where()))
}

var rne = &Term{op: "c", sort: SFP, sv: "RNE", size: 1}

func fpBin(op string, a, b *Term) *Term {
	t := mk(op, SFP, rne, a, b)
	return t
}

func intToFP(t *Term, ty IntTy) *Term {
	if c, ok := t.ConstInt(); ok {
		f, _ := new(big.Float).SetInt(c).Float64()
		return fpConst(f)
	}
	// via 64-bit two's complement bit-vector
	bvt := mk("(_ int2bv 64)", SBV, t)
	op := "(_ to_fp 11 53)"
	if !ty.Signed {
		op = "(_ to_fp_unsigned 11 53)"
	}
	return mk(op, SFP, rne, bvt)
}

func fpToInt(f *Term, ty IntTy) *Term {
	// Go: float->int conversion truncates toward zero; out-of-range is implementation-defined
	// (amd64: 0x8000000000000000). fp.to_sbv is unspecified out of range; we leave it so.
	rtz := &Term{op: "c", sort: SFP, sv: "RTZ", size: 1}
	if ty.Signed {
		bvt := mk("(_ fp.to_sbv 64)", SBV, rtz, f)
		u := mk("bv2nat", SInt, bvt)
		r := Ite(Ge(u, IntC(pow2(63))), Sub(u, IntC(pow2(64))), u)
		r.lo, r.hi = IntTy{64, true}.Min(), IntTy{64, true}.Max()
		return ty.Wrap(r)
	}
	bvt := mk("(_ fp.to_ubv 64)", SBV, rtz, f)
	u := mk("bv2nat", SInt, bvt)
	u.lo, u.hi = bi(0), IntTy{64, false}.Max()
	return ty.Wrap(u)
}

func isPow2Minus1(c *big.Int) (uint, bool) {
	if c.Sign() < 0 {
		return 0, false
	}
	d := new(big.Int).Add(c, bi(1))
	if d.BitLen() > 0 && new(big.Int).And(d, c).Sign() == 0 {
		return uint(d.BitLen() - 1), true
	}
	return 0, false
}

func (p *Path) intBinop(op token.Token, a, b *Term, xt, yt, rt types.Type) Value {
	ty, ok := intTyOf(rt)
	xty, _ := intTyOf(xt)
	switch op {
	case token.EQL:
		return VBool{Eq(a, b)}
	case token.NEQ:
		return VBool{Not(Eq(a, b))}
	case token.LSS:
		return VBool{Lt(a, b)}
	case token.LEQ:
		return VBool{Le(a, b)}
	case token.GTR:
		return VBool{Gt(a, b)}
	case token.GEQ:
		return VBool{Ge(a, b)}
	}
	if !ok {
		panic(engErr("int binop with non-int result type %v", rt))
	}
	switch op {
	case token.ADD:
		return VInt{ty.Wrap(Add(a, b))}
	case token.SUB:
		return VInt{ty.Wrap(Sub(a, b))}
	case token.MUL:
		return VInt{ty.Wrap(Mul(a, b))}
	case token.QUO:
		if !p.Decide(Not(Eq(b, IntC64(0)))) {
			p.goPanicf("integer divide by zero")
		}
		return VInt{ty.Wrap(GoQuo(a, b))}
	case token.REM:
		if !p.Decide(Not(Eq(b, IntC64(0)))) {
			p.goPanicf("integer divide by zero")
		}
		return VInt{GoRem(a, b)}
	case token.SHL:
		if c, ok := b.ConstInt(); ok {
			if c.Cmp(bi(int64(ty.Bits))) >= 0 {
				return VInt{IntC64(0)}
			}
			return VInt{ty.Wrap(Mul(a, IntC(pow2(uint(c.Int64())))))}
		}
	case token.SHR:
		if c, ok := b.ConstInt(); ok {
			if c.Cmp(bi(int64(xty.Bits))) >= 0 {
				if xty.Signed {
					return VInt{Ite(Lt(a, IntC64(0)), IntC64(-1), IntC64(0))}
				}
				return VInt{IntC64(0)}
			}
			// arithmetic shift = floor division (SMT div with positive divisor is floor)
			return VInt{Div(a, IntC(pow2(uint(c.Int64()))))}
		}
	case token.AND:
		ca, oka := a.ConstInt()
		cb, okb := b.ConstInt()
		if oka && okb && ca.Sign() >= 0 && cb.Sign() >= 0 {
			return VInt{IntC(new(big.Int).And(ca, cb))}
		}
		if oka && !okb {
			a, b, ca, cb, oka, okb = b, a, cb, ca, okb, oka
		}
		if okb {
			if cb.Sign() == 0 {
				return VInt{IntC64(0)}
			}
			if k, ok := isPow2Minus1(cb); ok {
				if xty.Signed {
					return VInt{Mod(a, IntC(pow2(k)))}
				}
				return VInt{Mod(a, IntC(pow2(k)))}
			}
			// single-bit or general mask on unsigned/non-negative: sum of bit tests
			if a.lo != nil && a.lo.Sign() >= 0 && cb.Sign() > 0 && cb.BitLen() <= 64 {
				var sum *Term = IntC64(0)
				for i := 0; i < cb.BitLen(); i++ {
					if cb.Bit(i) == 1 {
						bit := Mod(Div(a, IntC(pow2(uint(i)))), IntC64(2))
						sum = Add(sum, Mul(bit, IntC(pow2(uint(i)))))
					}
				}
				return VInt{sum}
			}
		}
	case token.OR, token.XOR:
		ca, oka := a.ConstInt()
		cb, okb := b.ConstInt()
		if oka && okb && ca.Sign() >= 0 && cb.Sign() >= 0 {
			if op == token.OR {
				return VInt{IntC(new(big.Int).Or(ca, cb))}
			}
			return VInt{IntC(new(big.Int).Xor(ca, cb))}
		}
		if okb && cb.Sign() == 0 {
			return VInt{a}
		}
		if oka && ca.Sign() == 0 {
			return VInt{b}
		}
		// x | (y << k) where x < 2^k : disjoint bit ranges => addition
		if op == token.OR {
			if t, ok := disjointOr(a, b); ok {
				return VInt{t}
			}
		}
	case token.AND_NOT:
		ca, oka := a.ConstInt()
		cb, okb := b.ConstInt()
		if oka && okb && ca.Sign() >= 0 && cb.Sign() >= 0 {
			return VInt{IntC(new(big.Int).AndNot(ca, cb))}
		}
	}
	panic(engErr("unsupported int op %v on symbolic operands %s , %s in %s", op, termStr(a), termStr(b), p.where()))
}

// disjointOr: a | b == a + b when a < 2^k and b is a multiple of 2^k
func disjointOr(a, b *Term) (*Term, bool) {
	mult := func(t *Term) uint { // largest k s.t. t is syntactically a multiple of 2^k
		if t.op == "*" && len(t.args) == 2 {
			if c, ok := t.args[1].ConstInt(); ok && c.Sign() > 0 {
				return c.TrailingZeroBits()
			}
		}
		if c, ok := t.ConstInt(); ok && c.Sign() > 0 {
			return c.TrailingZeroBits()
		}
		if t.op == "+" && len(t.args) == 2 {
			k1 := multOf(t.args[0])
			k2 := multOf(t.args[1])
			if k1 < k2 {
				return k1
			}
			return k2
		}
		return 0
	}
	try := func(x, y *Term) (*Term, bool) {
		k := mult(y)
		if k > 0 && x.lo != nil && x.lo.Sign() >= 0 && x.hi != nil && x.hi.Cmp(pow2(k)) < 0 {
			return Add(x, y), true
		}
		return nil, false
	}
	if t, ok := try(a, b); ok {
		return t, true
	}
	return try(b, a)
}

func multOf(t *Term) uint {
	if t.op == "*" && len(t.args) == 2 {
		if c, ok := t.args[1].ConstInt(); ok && c.Sign() > 0 {
			return c.TrailingZeroBits()
		}
	}
	if c, ok := t.ConstInt(); ok && c.Sign() > 0 {
		return c.TrailingZeroBits()
	}
	if t.op == "+" && len(t.args) == 2 {
		k1, k2 := multOf(t.args[0]), multOf(t.args[1])
		if k1 < k2 {
			return k1
		}
		return k2
	}
	return 0
}

// eqValues: structural Go equality as a Bool term.
func (p *Path) eqValues(x, y Value) *Term { return p.eqValuesMode(x, y, false) }

// deepEq: value equality of decoded messages (math.Int/Dec by numeric value, slices elementwise).
func (p *Path) deepEq(x, y Value) *Term { return p.eqValuesMode(x, y, true) }

func (p *Path) eqValuesMode(x, y Value, deep bool) *Term {
	if deep {
		switch a := x.(type) {
		case VBig:
			if b, ok := y.(VBig); ok {
				a, b = a.cur(), b.cur()
				if a.Nil || b.Nil {
					return BoolC(a.Nil && b.Nil)
				}
				return Eq(a.T, b.T)
			}
		case VDec:
			if b, ok := y.(VDec); ok {
				if a.Nil || b.Nil {
					return BoolC(a.Nil && b.Nil)
				}
				return Eq(a.T, b.T)
			}
		case VSlice:
			if b, ok := y.(VSlice); ok {
				// protobuf does not distinguish nil from empty
				if a.Len != b.Len {
					return tFalse
				}
				ea, eb := a.elems(), b.elems()
				var cs []*Term
				for i := range ea {
					cs = append(cs, p.eqValuesMode(ea[i], eb[i], true))
				}
				return And(cs...)
			}
		case VBlob:
			if b, ok := y.(VBlob); ok {
				if !types.Identical(a.Ty, b.Ty) {
					return tFalse
				}
				return p.eqValuesMode(a.Val, b.Val, true)
			}
		}
	}
	switch a := x.(type) {
	case VInt:
		if b, ok := y.(VInt); ok {
			return Eq(a.T, b.T)
		}
	case VBool:
		if b, ok := y.(VBool); ok {
			return Eq(a.T, b.T)
		}
	case VStr:
		if b, ok := y.(VStr); ok {
			return Eq(a.T, b.T)
		}
	case VFloat:
		if b, ok := y.(VFloat); ok {
			return mk("fp.eq", SBool, a.T, b.T)
		}
	case VPtr:
		b, ok := y.(VPtr)
		if !ok {
			break
		}
		if a.Nil || b.Nil {
			return BoolC(a.Nil && b.Nil)
		}
		if a.Obj != b.Obj || len(a.Path) != len(b.Path) {
			return tFalse
		}
		for i := range a.Path {
			if a.Path[i] != b.Path[i] {
				return tFalse
			}
		}
		return tTrue
	case VSlice:
		switch b := y.(type) {
		case VSlice:
			if b.Nil {
				return BoolC(a.Nil)
			}
			if a.Nil {
				return BoolC(b.Nil)
			}
		case VBlob:
			if a.Nil {
				return tFalse
			}
		}
	case VBlob:
		if b, ok := y.(VSlice); ok && b.Nil {
			return tFalse
		}
	case VMap:
		if b, ok := y.(VMap); ok {
			if b.Nil {
				return BoolC(a.Nil)
			}
			if a.Nil {
				return BoolC(b.Nil)
			}
		}
	case VFunc:
		if b, ok := y.(VFunc); ok {
			if b.Nil {
				return BoolC(a.Nil)
			}
			if a.Nil {
				return BoolC(b.Nil)
			}
		}
	case VIface:
		b, ok := y.(VIface)
		if !ok {
			break
		}
		if a.Ty == nil || b.Ty == nil {
			return BoolC(a.Ty == nil && b.Ty == nil)
		}
		if !types.Identical(a.Ty, b.Ty) {
			return tFalse
		}
		return p.eqValuesMode(a.Val, b.Val, deep)
	case VErr:
		if b, ok := y.(VErr); ok {
			return BoolC(a.Root == b.Root && a.Msg == b.Msg)
		}
	case *VStruct:
		if b, ok := y.(*VStruct); ok && len(a.F) == len(b.F) {
			var cs []*Term
			for i := range a.F {
				cs = append(cs, p.eqValuesMode(a.F[i], b.F[i], deep))
			}
			return And(cs...)
		}
	case *VArray:
		if b, ok := y.(*VArray); ok && len(a.E) == len(b.E) {
			var cs []*Term
			for i := range a.E {
				cs = append(cs, p.eqValuesMode(a.E[i], b.E[i], deep))
			}
			return And(cs...)
		}
	case VBig:
		if b, ok := y.(VBig); ok {
			if a.Nil || b.Nil {
				return BoolC(a.Nil && b.Nil)
			}
			// Go == on math.Int compares the *big.Int pointers; we approximate by value
			panic(engErr("== on math.Int values"))
		}
	case VTime:
		if b, ok := y.(VTime); ok {
			return And(Eq(a.Sec, b.Sec), Eq(a.Nsec, b.Nsec))
		}
	case VOpaque:
		if b, ok := y.(VOpaque); ok {
			return BoolC(a.What == b.What)
		}
	}
	panic(engErr("unsupported equality between %T and %T in %s", x, y, p.where()))
}
