#!/bin/bash
# Runs, for every seeded change in /verif/seeded/<id>/, the registered quick check of the property
# it breaks with the change applied to /repo (and reverts it straight afterwards).
# Output: /verif/seeded/RESULTS.tsv   (id, property, exit status, VIOLATION lines, wall seconds)
cd /repo || exit 9
if [ -n "$(git status --porcelain)" ]; then echo "REPO DIRTY, abort"; exit 9; fi
out=/verif/seeded/RESULTS.tsv
only="$@"
[ -z "$only" ] && : > $out
for d in /verif/seeded/C*/; do
  id=$(basename $d); prop=${id%%-*}
  if [ -n "$only" ] && ! echo " $only " | grep -q " $id "; then continue; fi
  git -C /repo apply $d/patch.diff || { echo -e "$id\t$prop\tPATCH-FAILED" >> $out; continue; }
  t0=$(date +%s)
  log=/verif/build/seeded_$id.log
  (cd /verif && timeout 1800 ./bin/vcheck run $prop --tier quick) > $log 2>&1
  rc=$?
  git -C /repo checkout -- . ; git -C /repo clean -fdq -- x app ante types cmd 2>/dev/null
  t1=$(date +%s)
  viol=$(grep -c '^VIOLATION' $log)
  labels=$(grep -A1 '^VIOLATION' $log | grep -o 'label=[^ ]*' | sort -u | tr '\n' ',' | cut -c1-200)
  echo -e "$id\t$prop\texit=$rc\tviolations=$viol\t$labels\t$((t1-t0))s" | tee -a $out
done
# restore evidence files of the unchanged tree is the caller's job (re-run the checks)
