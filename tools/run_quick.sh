#!/bin/bash
# runs every quick check in sequence, summary in build/quick_summary.txt
cd /verif; : > build/quick_summary.txt
for p in C01 C02 C03 C04 C05 C06 C07 C08 C09 C10 C11 C12 C13 C14 C15 C16 C17 C18 C19 C20; do
  s=$(date +%s); bin/vcheck run $p --tier quick > build/quick_$p.log 2>&1; e=$?
  echo "$p exit=$e $(( $(date +%s)-s ))s $(grep -c '^VIOLATION' build/quick_$p.log) viol $(grep -c '^KNOWN-FINDING' build/quick_$p.log) known $(grep -c '^PROBLEM' build/quick_$p.log) problems" >> build/quick_summary.txt
done
echo DONE >> build/quick_summary.txt
