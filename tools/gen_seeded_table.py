#!/usr/bin/env python3
"""Regenerates the table of DESIGN.md §15 from seeded/RESULTS.tsv and seeded/<id>/meta.json."""
import json, re, os
root = os.path.dirname(os.path.dirname(os.path.abspath(__file__)))
rows = {}
for l in open(f'{root}/seeded/RESULTS.tsv'):
    f = l.rstrip('\n').split('\t')
    rows[f[0]] = f
out = []
for sid in sorted(rows):
    f = rows[sid]
    meta = json.load(open(f'{root}/seeded/{sid}/meta.json'))
    labels = sorted(set(re.sub(r':github\.com/\S*', '', x.replace('label=', '')) for x in f[4].split(',') if x.strip()))
    out.append(f"| {sid} | {meta['needs_to_manifest']} | {f[2]} | {','.join(labels)} |")
d = open(f'{root}/DESIGN.md').read()
hdr = '| id | needs, to manifest | result | assertion(s) that fired |\n|---|---|---|---|\n'
i = d.index(hdr) + len(hdr)
j = d.index('\nAll ', i)
k = d.index(' are caught', j)
d = d[:i] + '\n'.join(out) + '\n' + d[j:j + 5] + str(len(out)) + d[k:]
open(f'{root}/DESIGN.md', 'w').write(d)
print(len(out), 'rows')
