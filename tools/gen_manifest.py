#!/usr/bin/env python3
"""Generates /verif/MANIFEST.json from the table below (single source of truth for what is claimed)."""
import json, sys

SETUP = "cd /verif/engine && GOFLAGS=-mod=mod GOPROXY=off GOSUMDB=off GOTOOLCHAIN=local go build -o /verif/bin/vcheck ."
BASELINE = json.load(open('/root/.vp/BASELINE.json'))['cmd']

# property -> (level text, level note, design ref) ; absent => not_applicable with reason
CLAIMED = json.load(open('/verif/tools/claims.json'))

props = [json.loads(l) for l in open('/verif/properties.jsonl')]
checks, na = [], []
for p in props:
    pid = p['id']
    c = CLAIMED.get(pid)
    if not c or c.get('not_applicable'):
        na.append({"property_id": pid, "reason": (c or {}).get('not_applicable', "no solver-based check built yet in this session (planned in DESIGN.md §5)")})
        continue
    checks.append({
        "property_id": pid,
        "quick_cmd": f"/verif/bin/vcheck run {pid} --tier quick",
        "thorough_cmd": f"/verif/bin/vcheck run {pid} --tier thorough",
        "evidence_file": f"/verif/evidence/{pid}.json",
        "replay_cmd_template": "/verif/bin/vcheck replay {path}",
        "engine": "symgo",
        "level_claimed": {"category": "other", "text": c['text'], "design_ref": c.get('design_ref', "DESIGN.md §5 " + pid)},
        "level_note": c['note'],
        "technique": "bounded symbolic execution of the real go/ssa code + SMT (z3 5.1 / cvc5 1.0 / z3 4.8 portfolio), counterexamples replayed natively",
    })
m = {
    "version": 1,
    "setup_cmd": SETUP,
    "hooks": {
        "guard": "verif",
        "enable": "no source hooks: harnesses and the rt/model packages enter the build only through `go build -overlay` (files under /verif/harness/overlay mapped onto /repo paths); the repository is built unmodified",
        "baseline_off_cmd": BASELINE,
        "source_commits": [],
        "add_only": True,
    },
    "engines": [{"name": "symgo", "path": "/verif/engine", "serves_properties": [c['property_id'] for c in checks],
                 "kind_free_text": "go/ssa symbolic executor written for this task; SMT-LIB2 to persistent z3-new/cvc5/z3 processes; decision-replay path exploration; native replay of models"}],
    "checks": checks,
    "not_applicable": na,
    "notes": "Exit status of every check: 0 = all obligations unsat (or matched by a listed known finding) and all reach witnesses found; 1 = reproduced counterexample (VIOLATION line); 2 = inconclusive (engine error / solver unknown / bound hit / vacuity / counterexample that does not replay) - never reported as PASS.",
}
json.dump(m, open('/verif/MANIFEST.json', 'w'), indent=1)
print("checks:", [c['property_id'] for c in checks], "n/a:", [x['property_id'] for x in na])
