#!/bin/bash
cd /verif
for p in C08 C18 C19 C17 C13 C16 C09 C07 C10 C11 C12 C15 C20 C03 C14 C01 C02 C04 C05 C06; do
  t0=$(date +%s)
  timeout 7200 ./bin/vcheck run $p --tier thorough > build/thorough_$p.log 2>&1
  rc=$?
  echo "$p exit=$rc $(( $(date +%s) - t0 ))s $(grep -E '^(PASS|FAIL|INCONCL)' build/thorough_$p.log | head -1)" >> build/thorough_summary.txt
done
echo DONE >> build/thorough_summary.txt
