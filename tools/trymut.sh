#!/bin/bash
# usage: trymut.sh <patch.diff> <vcheck args...>   — applies patch to /repo, runs vcheck, always reverts
P=$1; shift
cd /repo || exit 9
if [ -n "$(git status --porcelain)" ]; then echo "REPO DIRTY, abort"; exit 9; fi
git apply "$P" || { echo "patch failed"; exit 9; }
trap 'git -C /repo checkout -- . ; git -C /repo status --porcelain' EXIT
cd /verif && ./bin/vcheck "$@"
echo "exit=$?"
