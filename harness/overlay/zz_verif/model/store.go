package model

import (
	"bytes"

	storetypes "github.com/cosmos/cosmos-sdk/store/types"

	"github.com/unification-com/mainchain/zz_verif/rt"
)

// MemStore is a KVStore model: a finite map kept in ascending lexicographic key order.
// Contract modelled (SDK store/types.KVStore): Get/Has/Set/Delete on exact keys; Iterator and
// ReverseIterator over [start, end) in ascending / descending byte order; nil/empty keys and nil
// values are rejected with a panic as by types.AssertValidKey/AssertValidValue.
type kvPair struct {
	K []byte
	V []byte
}

type MemStore struct {
	storetypes.KVStore // never called: only satisfies the interface natively
	Items              []kvPair
	Writes             int
	Reads              int
}

func NewMemStore() *MemStore { return &MemStore{} }

// find returns the position of key, or the insertion point.
func (s *MemStore) find(key []byte) (int, bool) {
	for i := 0; i < len(s.Items); i++ {
		c := bytes.Compare(s.Items[i].K, key)
		if c == 0 {
			return i, true
		}
		if c > 0 {
			return i, false
		}
	}
	return len(s.Items), false
}

func (s *MemStore) GetStoreType() storetypes.StoreType { return storetypes.StoreTypeMemory }

func (s *MemStore) Get(key []byte) []byte {
	if len(key) == 0 {
		panic("key is nil")
	}
	s.Reads++
	if i, ok := s.find(key); ok {
		return s.Items[i].V
	}
	return nil
}

func (s *MemStore) Has(key []byte) bool {
	if len(key) == 0 {
		panic("key is nil")
	}
	s.Reads++
	_, ok := s.find(key)
	return ok
}

func (s *MemStore) Set(key, value []byte) {
	if len(key) == 0 {
		panic("key is nil")
	}
	if value == nil {
		panic("value is nil")
	}
	s.Writes++
	i, ok := s.find(key)
	if ok {
		s.Items[i].V = value
		return
	}
	n := make([]kvPair, 0, len(s.Items)+1)
	n = append(n, s.Items[:i]...)
	n = append(n, kvPair{K: key, V: value})
	n = append(n, s.Items[i:]...)
	s.Items = n
}

func (s *MemStore) Delete(key []byte) {
	if len(key) == 0 {
		panic("key is nil")
	}
	s.Writes++
	i, ok := s.find(key)
	if !ok {
		return
	}
	n := make([]kvPair, 0, len(s.Items))
	n = append(n, s.Items[:i]...)
	n = append(n, s.Items[i+1:]...)
	s.Items = n
}

func (s *MemStore) collect(start, end []byte) []kvPair {
	var out []kvPair
	for i := 0; i < len(s.Items); i++ {
		k := s.Items[i].K
		if start != nil && bytes.Compare(k, start) < 0 {
			continue
		}
		if end != nil && bytes.Compare(k, end) >= 0 {
			continue
		}
		out = append(out, s.Items[i])
	}
	return out
}

func (s *MemStore) Iterator(start, end []byte) storetypes.Iterator {
	s.Reads++
	return &MemIter{items: s.collect(start, end), start: start, end: end}
}

func (s *MemStore) ReverseIterator(start, end []byte) storetypes.Iterator {
	s.Reads++
	fw := s.collect(start, end)
	rv := make([]kvPair, len(fw))
	for i := range fw {
		rv[len(fw)-1-i] = fw[i]
	}
	return &MemIter{items: rv, start: start, end: end}
}

// Clone takes a snapshot (keys and values are never mutated in place by the store).
func (s *MemStore) Clone() *MemStore {
	n := make([]kvPair, len(s.Items))
	copy(n, s.Items)
	return &MemStore{Items: n}
}

// DeepClone copies keys and values byte by byte: what a node sees after reloading the store from
// its database (no memory shared with the running process).
func (s *MemStore) DeepClone() *MemStore {
	n := make([]kvPair, len(s.Items))
	for i := range s.Items {
		n[i] = kvPair{K: rt.CloneBytes(s.Items[i].K), V: rt.CloneBytes(s.Items[i].V)}
	}
	return &MemStore{Items: n}
}

// Len is the number of live entries.
func (s *MemStore) Len() int { return len(s.Items) }

// SameAs: both stores hold exactly the same key/value pairs.
func (s *MemStore) SameAs(o *MemStore) bool {
	if len(s.Items) != len(o.Items) {
		return false
	}
	eq := true
	for i := range s.Items {
		eq = rt.And(eq, rt.And(bytes.Equal(s.Items[i].K, o.Items[i].K), bytes.Equal(s.Items[i].V, o.Items[i].V)))
	}
	return eq
}

// CountPrefix counts entries whose key starts with prefix.
func (s *MemStore) CountPrefix(prefix []byte) int {
	n := 0
	for i := range s.Items {
		if bytes.HasPrefix(s.Items[i].K, prefix) {
			n++
		}
	}
	return n
}

type MemIter struct {
	items      []kvPair
	pos        int
	start, end []byte
	closed     bool
}

func (it *MemIter) Domain() ([]byte, []byte) { return it.start, it.end }
func (it *MemIter) Valid() bool              { return it.pos < len(it.items) }
func (it *MemIter) Next() {
	if it.pos >= len(it.items) {
		panic("iterator is invalid")
	}
	it.pos++
}
func (it *MemIter) Key() []byte {
	if it.pos >= len(it.items) {
		panic("iterator is invalid")
	}
	return it.items[it.pos].K
}
func (it *MemIter) Value() []byte {
	if it.pos >= len(it.items) {
		panic("iterator is invalid")
	}
	return it.items[it.pos].V
}
func (it *MemIter) Error() error { return nil }
func (it *MemIter) Close() error { it.closed = true; return nil }

// MultiStore maps store keys (by name) to MemStores.
type MultiStore struct {
	storetypes.MultiStore // never called
	names                 []string
	stores                []*MemStore
}

func NewMultiStore() *MultiStore { return &MultiStore{} }

func (m *MultiStore) Store(name string) *MemStore {
	for i, n := range m.names {
		if n == name {
			return m.stores[i]
		}
	}
	s := NewMemStore()
	m.names = append(m.names, name)
	m.stores = append(m.stores, s)
	return s
}

func (m *MultiStore) GetKVStore(key storetypes.StoreKey) storetypes.KVStore { return m.Store(key.Name()) }
func (m *MultiStore) GetStore(key storetypes.StoreKey) storetypes.Store     { return m.Store(key.Name()) }

// Snapshot clones every store.
func (m *MultiStore) Snapshot() *MultiStore {
	n := &MultiStore{}
	for i := range m.names {
		n.names = append(n.names, m.names[i])
		n.stores = append(n.stores, m.stores[i].Clone())
	}
	return n
}

// DeepSnapshot: every store reloaded from "disk" (see MemStore.DeepClone).
func (m *MultiStore) DeepSnapshot() *MultiStore {
	n := &MultiStore{}
	for i := range m.names {
		n.names = append(n.names, m.names[i])
		n.stores = append(n.stores, m.stores[i].DeepClone())
	}
	return n
}

func (m *MultiStore) SameAs(o *MultiStore) bool {
	eq := true
	for i := range m.names {
		eq = rt.And(eq, m.stores[i].SameAs(o.Store(m.names[i])))
	}
	for i := range o.names {
		eq = rt.And(eq, o.stores[i].SameAs(m.Store(o.names[i])))
	}
	return eq
}

func (m *MultiStore) TotalReads() int {
	n := 0
	for _, s := range m.stores {
		n += s.Reads
	}
	return n
}

func (m *MultiStore) TotalWrites() int {
	n := 0
	for _, s := range m.stores {
		n += s.Writes
	}
	return n
}
