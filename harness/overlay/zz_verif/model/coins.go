package model

import (
	sdkmath "cosmossdk.io/math"
	sdk "github.com/cosmos/cosmos-sdk/types"
)

// CoinsSort models (sdk.Coins).Sort: in-place ascending sort by denom (insertion sort instead of
// sort.Sort), returning the same slice.
func CoinsSort(coins sdk.Coins) sdk.Coins {
	for i := 1; i < len(coins); i++ {
		for j := i; j > 0 && coins[j].Denom < coins[j-1].Denom; j-- {
			coins[j], coins[j-1] = coins[j-1], coins[j]
		}
	}
	return coins
}

func coinsIsSorted(coins sdk.Coins) bool {
	for i := 1; i < len(coins); i++ {
		if coins[i-1].Denom > coins[i].Denom {
			return false
		}
	}
	return true
}

// CoinsSafeAdd models (sdk.Coins).safeAdd: pointwise sum over the union of denominations
// (duplicates inside one operand are coalesced too), zero results dropped, sorted by denom;
// panics if an operand is unsorted. Written from types/coin.go (v0.47.13).
func CoinsSafeAdd(coins sdk.Coins, coinsB sdk.Coins) sdk.Coins {
	if !coinsIsSorted(coins) {
		panic("Coins (self) must be sorted")
	}
	if !coinsIsSorted(coinsB) {
		panic("Wrong argument: coins must be sorted")
	}
	var acc sdk.Coins
	for pass := 0; pass < 2; pass++ {
		src := coins
		if pass == 1 {
			src = coinsB
		}
		for _, c := range src {
			found := false
			for k := range acc {
				if acc[k].Denom == c.Denom {
					acc[k] = sdk.Coin{Denom: c.Denom, Amount: acc[k].Amount.Add(c.Amount)}
					found = true
					break
				}
			}
			if !found {
				acc = append(acc, sdk.Coin{Denom: c.Denom, Amount: sdkmath.NewInt(0).Add(c.Amount)})
			}
		}
	}
	var out sdk.Coins
	for _, c := range acc {
		if !c.Amount.IsZero() {
			out = append(out, c)
		}
	}
	if out == nil {
		return sdk.Coins{}
	}
	return CoinsSort(out)
}
