package model

import (
	"bytes"
	"fmt"

	sdkmath "cosmossdk.io/math"
	sdk "github.com/cosmos/cosmos-sdk/types"
	sdkerrors "github.com/cosmos/cosmos-sdk/types/errors"
	"github.com/cosmos/cosmos-sdk/types/query"
	authtypes "github.com/cosmos/cosmos-sdk/x/auth/types"

	"github.com/unification-com/mainchain/zz_verif/rt"
)

// Bank is a ledger model of the Cosmos SDK x/bank + x/auth keepers as seen through the repo's
// expected_keepers interfaces. Written from cosmos-sdk v0.47.13 x/bank/keeper/{send,keeper,view}.go
// and x/auth/vesting/types/vesting_accounts.go (TrackDelegation / TrackUndelegation).
//
// Account kinds: 0 = unknown (no account object), 1 = base, 2 = vesting, 3 = module.
type Account struct {
	Addr  sdk.AccAddress
	Kind  int
	Name  string   // module name
	Perms []string // module permissions
	// vesting accounts: amount still vesting at the current block time (per denom) and the
	// delegation bookkeeping of BaseVestingAccount
	Vesting          sdk.Coins
	DelegatedVesting sdk.Coins
	DelegatedFree    sdk.Coins
}

type balance struct {
	Addr  sdk.AccAddress
	Denom string
	Amt   sdkmath.Int
}

type Bank struct {
	Accounts []*Account
	Balances []balance
	Supply   sdk.Coins
	Blocked  []sdk.AccAddress
	Minted   sdk.Coins // ghost: everything minted through MintCoins
	Burned   sdk.Coins // ghost
	Sends    int       // ghost: number of successful balance-moving operations
}

func NewBank() *Bank { return &Bank{Supply: sdk.Coins{}, Minted: sdk.Coins{}, Burned: sdk.Coins{}} }

// ----- setup helpers (used by harnesses) -----

func (b *Bank) AddModule(name string, perms ...string) sdk.AccAddress {
	addr := authtypes.NewModuleAddress(name)
	b.Accounts = append(b.Accounts, &Account{Addr: addr, Kind: 3, Name: name, Perms: perms})
	return addr
}

func (b *Bank) AddBase(addr sdk.AccAddress) {
	b.Accounts = append(b.Accounts, &Account{Addr: addr, Kind: 1})
}

func (b *Bank) AddVesting(addr sdk.AccAddress, vesting, delegatedVesting, delegatedFree sdk.Coins) {
	b.Accounts = append(b.Accounts, &Account{Addr: addr, Kind: 2, Vesting: vesting, DelegatedVesting: delegatedVesting, DelegatedFree: delegatedFree})
}

func (b *Bank) Block(addr sdk.AccAddress) { b.Blocked = append(b.Blocked, addr) }

// Fund sets up a balance and the matching supply (pre-state construction only).
func (b *Bank) Fund(addr sdk.AccAddress, denom string, amt sdkmath.Int) {
	b.setBal(addr, denom, b.bal(addr, denom).Add(amt))
	b.Supply = b.Supply.Add(sdk.Coin{Denom: denom, Amount: amt})
}

// AddSupply adds supply held by accounts outside the modelled set.
func (b *Bank) AddSupply(denom string, amt sdkmath.Int) {
	b.Supply = b.Supply.Add(sdk.Coin{Denom: denom, Amount: amt})
}

func (b *Bank) account(addr sdk.AccAddress) *Account {
	for _, a := range b.Accounts {
		if bytes.Equal(a.Addr, addr) {
			return a
		}
	}
	return nil
}

func (b *Bank) module(name string) *Account {
	for _, a := range b.Accounts {
		if a.Kind == 3 && a.Name == name {
			return a
		}
	}
	return nil
}

func (a *Account) hasPerm(p string) bool {
	for _, x := range a.Perms {
		if x == p {
			return true
		}
	}
	return false
}

func (b *Bank) bal(addr sdk.AccAddress, denom string) sdkmath.Int {
	for i := range b.Balances {
		if b.Balances[i].Denom == denom && bytes.Equal(b.Balances[i].Addr, addr) {
			return b.Balances[i].Amt
		}
	}
	return sdkmath.ZeroInt()
}

func (b *Bank) setBal(addr sdk.AccAddress, denom string, amt sdkmath.Int) {
	for i := range b.Balances {
		if b.Balances[i].Denom == denom && bytes.Equal(b.Balances[i].Addr, addr) {
			b.Balances[i].Amt = amt
			return
		}
	}
	b.Balances = append(b.Balances, balance{Addr: addr, Denom: denom, Amt: amt})
}

// Bal is the harness-facing balance accessor.
func (b *Bank) Bal(addr sdk.AccAddress, denom string) sdkmath.Int { return b.bal(addr, denom) }

func (b *Bank) SupplyOf(denom string) sdkmath.Int { return b.Supply.AmountOf(denom) }

// Clone copies the ledger (accounts are copied by value).
func (b *Bank) Clone() *Bank {
	n := &Bank{Supply: append(sdk.Coins{}, b.Supply...), Minted: append(sdk.Coins{}, b.Minted...), Burned: append(sdk.Coins{}, b.Burned...)}
	for _, a := range b.Accounts {
		c := *a
		n.Accounts = append(n.Accounts, &c)
	}
	n.Balances = append(n.Balances, b.Balances...)
	n.Blocked = append(n.Blocked, b.Blocked...)
	n.Sends = b.Sends
	return n
}

// ----- view keeper -----

func (b *Bank) GetBalance(ctx sdk.Context, addr sdk.AccAddress, denom string) sdk.Coin {
	return sdk.Coin{Denom: denom, Amount: b.bal(addr, denom)}
}

func (b *Bank) GetAllBalances(ctx sdk.Context, addr sdk.AccAddress) sdk.Coins {
	out := sdk.Coins{}
	for i := range b.Balances {
		if bytes.Equal(b.Balances[i].Addr, addr) && !b.Balances[i].Amt.IsZero() {
			out = append(out, sdk.Coin{Denom: b.Balances[i].Denom, Amount: b.Balances[i].Amt})
		}
	}
	return out.Sort()
}

// LockedCoins: for vesting accounts max(vesting - delegatedVesting, 0) per denom.
func (b *Bank) LockedCoins(ctx sdk.Context, addr sdk.AccAddress) sdk.Coins {
	a := b.account(addr)
	if a == nil || a.Kind != 2 {
		return sdk.NewCoins()
	}
	out := sdk.Coins{}
	for _, v := range a.Vesting {
		d := a.DelegatedVesting.AmountOf(v.Denom)
		l := v.Amount.Sub(d)
		if l.IsPositive() {
			out = append(out, sdk.Coin{Denom: v.Denom, Amount: l})
		}
	}
	return out
}

func (b *Bank) SpendableCoins(ctx sdk.Context, addr sdk.AccAddress) sdk.Coins {
	total := b.GetAllBalances(ctx, addr)
	locked := b.LockedCoins(ctx, addr)
	spendable, hasNeg := total.SafeSub(locked...)
	if hasNeg {
		return sdk.NewCoins()
	}
	return spendable
}

func (b *Bank) SpendableCoin(ctx sdk.Context, addr sdk.AccAddress, denom string) sdk.Coin {
	return sdk.Coin{Denom: denom, Amount: b.SpendableCoins(ctx, addr).AmountOf(denom)}
}

func (b *Bank) GetSupply(ctx sdk.Context, denom string) sdk.Coin {
	return sdk.Coin{Denom: denom, Amount: b.Supply.AmountOf(denom)}
}

// GetPaginatedTotalSupply: every denom with non-zero supply exactly once, sorted (pagination
// request ignored: the whole set is one page).
func (b *Bank) GetPaginatedTotalSupply(ctx sdk.Context, pagination *query.PageRequest) (sdk.Coins, *query.PageResponse, error) {
	out := sdk.Coins{}
	for _, c := range b.Supply {
		if !c.Amount.IsZero() {
			out = append(out, c)
		}
	}
	return out, &query.PageResponse{Total: uint64(len(out))}, nil
}

func (b *Bank) BlockedAddr(addr sdk.AccAddress) bool {
	for _, x := range b.Blocked {
		if bytes.Equal(x, addr) {
			return true
		}
	}
	return false
}

func (b *Bank) GetBlockedAddresses() map[string]bool {
	m := map[string]bool{}
	for _, x := range b.Blocked {
		m[x.String()] = true
	}
	return m
}

// ----- send keeper -----

func (b *Bank) subUnlockedCoins(ctx sdk.Context, addr sdk.AccAddress, amt sdk.Coins) error {
	if !amt.IsValid() {
		return sdkerrors.Wrap(sdkerrors.ErrInvalidCoins, "invalid coins")
	}
	locked := b.LockedCoins(ctx, addr)
	for _, coin := range amt {
		bal := b.bal(addr, coin.Denom)
		lk := locked.AmountOf(coin.Denom)
		if bal.LT(lk) {
			return sdkerrors.Wrap(sdkerrors.ErrInsufficientFunds, "locked amount exceeds account balance funds")
		}
		spendable := bal.Sub(lk)
		if spendable.LT(coin.Amount) {
			return sdkerrors.Wrap(sdkerrors.ErrInsufficientFunds, "spendable balance is smaller than amount")
		}
	}
	for _, coin := range amt {
		b.setBal(addr, coin.Denom, b.bal(addr, coin.Denom).Sub(coin.Amount))
	}
	return nil
}

func (b *Bank) addCoins(addr sdk.AccAddress, amt sdk.Coins) error {
	if !amt.IsValid() {
		return sdkerrors.Wrap(sdkerrors.ErrInvalidCoins, "invalid coins")
	}
	for _, coin := range amt {
		b.setBal(addr, coin.Denom, b.bal(addr, coin.Denom).Add(coin.Amount))
	}
	return nil
}

func (b *Bank) SendCoins(ctx sdk.Context, from, to sdk.AccAddress, amt sdk.Coins) error {
	if err := b.subUnlockedCoins(ctx, from, amt); err != nil {
		return err
	}
	if err := b.addCoins(to, amt); err != nil {
		return err
	}
	if b.account(to) == nil {
		b.AddBase(to) // the real keeper creates the recipient account
	}
	b.Sends++
	return nil
}

func (b *Bank) SendCoinsFromModuleToAccount(ctx sdk.Context, senderModule string, recipientAddr sdk.AccAddress, amt sdk.Coins) error {
	m := b.module(senderModule)
	if m == nil {
		panic(fmt.Sprintf("module account %s does not exist", senderModule))
	}
	if b.BlockedAddr(recipientAddr) {
		return sdkerrors.Wrap(sdkerrors.ErrUnauthorized, "recipient is not allowed to receive funds")
	}
	return b.SendCoins(ctx, m.Addr, recipientAddr, amt)
}

func (b *Bank) SendCoinsFromModuleToModule(ctx sdk.Context, senderModule, recipientModule string, amt sdk.Coins) error {
	m := b.module(senderModule)
	if m == nil {
		panic(fmt.Sprintf("module account %s does not exist", senderModule))
	}
	r := b.module(recipientModule)
	if r == nil {
		panic(fmt.Sprintf("module account %s does not exist", recipientModule))
	}
	return b.SendCoins(ctx, m.Addr, r.Addr, amt)
}

func (b *Bank) SendCoinsFromAccountToModule(ctx sdk.Context, senderAddr sdk.AccAddress, recipientModule string, amt sdk.Coins) error {
	r := b.module(recipientModule)
	if r == nil {
		panic(fmt.Sprintf("module account %s does not exist", recipientModule))
	}
	return b.SendCoins(ctx, senderAddr, r.Addr, amt)
}

func minInt(a, b sdkmath.Int) sdkmath.Int {
	if a.LT(b) {
		return a
	}
	return b
}

func maxInt(a, b sdkmath.Int) sdkmath.Int {
	if a.GT(b) {
		return a
	}
	return b
}

func (b *Bank) DelegateCoinsFromAccountToModule(ctx sdk.Context, senderAddr sdk.AccAddress, recipientModule string, amt sdk.Coins) error {
	r := b.module(recipientModule)
	if r == nil {
		panic(fmt.Sprintf("module account %s does not exist", recipientModule))
	}
	if !r.hasPerm(authtypes.Staking) {
		panic(fmt.Sprintf("module account %s does not have permissions to receive delegated coins", recipientModule))
	}
	if !amt.IsValid() {
		return sdkerrors.Wrap(sdkerrors.ErrInvalidCoins, "invalid coins")
	}
	for _, coin := range amt {
		if b.bal(senderAddr, coin.Denom).LT(coin.Amount) {
			return sdkerrors.Wrap(sdkerrors.ErrInsufficientFunds, "failed to delegate")
		}
	}
	acc := b.account(senderAddr)
	for _, coin := range amt {
		balBefore := b.bal(senderAddr, coin.Denom)
		b.setBal(senderAddr, coin.Denom, balBefore.Sub(coin.Amount))
		if acc != nil && acc.Kind == 2 {
			// TrackDelegation
			if coin.Amount.IsZero() || balBefore.LT(coin.Amount) {
				panic("delegation attempt with zero coins or insufficient funds")
			}
			vestingAmt := acc.Vesting.AmountOf(coin.Denom)
			delVestingAmt := acc.DelegatedVesting.AmountOf(coin.Denom)
			x := minInt(maxInt(vestingAmt.Sub(delVestingAmt), sdkmath.ZeroInt()), coin.Amount)
			y := coin.Amount.Sub(x)
			if !x.IsZero() {
				acc.DelegatedVesting = acc.DelegatedVesting.Add(sdk.Coin{Denom: coin.Denom, Amount: x})
			}
			if !y.IsZero() {
				acc.DelegatedFree = acc.DelegatedFree.Add(sdk.Coin{Denom: coin.Denom, Amount: y})
			}
		}
	}
	if err := b.addCoins(r.Addr, amt); err != nil {
		return err
	}
	b.Sends++
	return nil
}

func (b *Bank) UndelegateCoinsFromModuleToAccount(ctx sdk.Context, senderModule string, recipientAddr sdk.AccAddress, amt sdk.Coins) error {
	m := b.module(senderModule)
	if m == nil {
		panic(fmt.Sprintf("module account %s does not exist", senderModule))
	}
	if !m.hasPerm(authtypes.Staking) {
		panic(fmt.Sprintf("module account %s does not have permissions to undelegate coins", senderModule))
	}
	if !amt.IsValid() {
		return sdkerrors.Wrap(sdkerrors.ErrInvalidCoins, "invalid coins")
	}
	if err := b.subUnlockedCoins(ctx, m.Addr, amt); err != nil {
		return err
	}
	acc := b.account(recipientAddr)
	if acc != nil && acc.Kind == 2 {
		for _, coin := range amt {
			if coin.Amount.IsZero() {
				panic("undelegation attempt with zero coins")
			}
			delegatedFree := acc.DelegatedFree.AmountOf(coin.Denom)
			delegatedVesting := acc.DelegatedVesting.AmountOf(coin.Denom)
			x := minInt(delegatedFree, coin.Amount)
			y := minInt(delegatedVesting, coin.Amount.Sub(x))
			if !x.IsZero() {
				acc.DelegatedFree = acc.DelegatedFree.Sub(sdk.Coin{Denom: coin.Denom, Amount: x})
			}
			if !y.IsZero() {
				acc.DelegatedVesting = acc.DelegatedVesting.Sub(sdk.Coin{Denom: coin.Denom, Amount: y})
			}
		}
	}
	if err := b.addCoins(recipientAddr, amt); err != nil {
		return err
	}
	b.Sends++
	return nil
}

func (b *Bank) MintCoins(ctx sdk.Context, moduleName string, amounts sdk.Coins) error {
	m := b.module(moduleName)
	if m == nil {
		panic(fmt.Sprintf("module account %s does not exist", moduleName))
	}
	if !m.hasPerm(authtypes.Minter) {
		panic(fmt.Sprintf("module account %s does not have permissions to mint tokens", moduleName))
	}
	if err := b.addCoins(m.Addr, amounts); err != nil {
		return err
	}
	b.Supply = b.Supply.Add(amounts...)
	b.Minted = b.Minted.Add(amounts...)
	return nil
}

func (b *Bank) BurnCoins(ctx sdk.Context, moduleName string, amounts sdk.Coins) error {
	m := b.module(moduleName)
	if m == nil {
		panic(fmt.Sprintf("module account %s does not exist", moduleName))
	}
	if !m.hasPerm(authtypes.Burner) {
		panic(fmt.Sprintf("module account %s does not have permissions to burn tokens", moduleName))
	}
	if err := b.subUnlockedCoins(ctx, m.Addr, amounts); err != nil {
		return err
	}
	b.Supply = b.Supply.Sub(amounts...)
	b.Burned = b.Burned.Add(amounts...)
	return nil
}

// ----- account keeper -----

func (b *Bank) GetModuleAddress(name string) sdk.AccAddress {
	m := b.module(name)
	if m == nil {
		return nil
	}
	return m.Addr
}

func (b *Bank) GetModuleAccount(ctx sdk.Context, name string) authtypes.ModuleAccountI {
	m := b.module(name)
	if m == nil {
		return nil
	}
	return authtypes.NewEmptyModuleAccount(name, m.Perms...)
}

func (b *Bank) SetModuleAccount(ctx sdk.Context, macc authtypes.ModuleAccountI) {}

func (b *Bank) GetAccount(ctx sdk.Context, addr sdk.AccAddress) authtypes.AccountI {
	a := b.account(addr)
	if a == nil {
		return nil
	}
	if a.Kind == 3 {
		return authtypes.NewEmptyModuleAccount(a.Name, a.Perms...)
	}
	return authtypes.NewBaseAccountWithAddress(addr)
}

func (b *Bank) SetAccount(ctx sdk.Context, acc authtypes.AccountI) {}

func (b *Bank) GetParams(ctx sdk.Context) authtypes.Params { return authtypes.DefaultParams() }

// SameAs: both ledgers hold the same balances, supply and vesting bookkeeping.
func (b *Bank) SameAs(o *Bank) bool {
	eq := true
	for i := range b.Balances {
		x := b.Balances[i]
		eq = rt.And(eq, rt.IntEq(x.Amt, o.bal(x.Addr, x.Denom)))
	}
	for i := range o.Balances {
		x := o.Balances[i]
		eq = rt.And(eq, rt.IntEq(x.Amt, b.bal(x.Addr, x.Denom)))
	}
	for _, c := range b.Supply {
		eq = rt.And(eq, rt.IntEq(c.Amount, o.Supply.AmountOf(c.Denom)))
	}
	for _, c := range o.Supply {
		eq = rt.And(eq, rt.IntEq(c.Amount, b.Supply.AmountOf(c.Denom)))
	}
	if len(b.Accounts) != len(o.Accounts) {
		return false
	}
	for i, a := range b.Accounts {
		c := o.Accounts[i]
		if a.Kind != c.Kind || !bytes.Equal(a.Addr, c.Addr) {
			return false
		}
		for _, v := range a.DelegatedVesting {
			eq = rt.And(eq, rt.IntEq(v.Amount, c.DelegatedVesting.AmountOf(v.Denom)))
		}
		for _, v := range a.DelegatedFree {
			eq = rt.And(eq, rt.IntEq(v.Amount, c.DelegatedFree.AmountOf(v.Denom)))
		}
	}
	return eq
}
