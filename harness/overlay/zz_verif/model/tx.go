package model

import (
	sdk "github.com/cosmos/cosmos-sdk/types"
)

// Tx is a minimal sdk.FeeTx: exactly the accessors the repository's ante decorators use.
type Tx struct {
	Msgs    []sdk.Msg
	Fee     sdk.Coins
	Payer   sdk.AccAddress
	Granter sdk.AccAddress
	Gas     uint64
}

func (t *Tx) GetMsgs() []sdk.Msg          { return t.Msgs }
func (t *Tx) ValidateBasic() error        { return nil }
func (t *Tx) GetGas() uint64              { return t.Gas }
func (t *Tx) GetFee() sdk.Coins           { return t.Fee }
func (t *Tx) FeePayer() sdk.AccAddress    { return t.Payer }
func (t *Tx) FeeGranter() sdk.AccAddress  { return t.Granter }

var _ sdk.FeeTx = (*Tx)(nil)
