// Package model holds Go models of the environment (KV store, bank, accounts, transactions)
// that both the symbolic engine and the native replay execute.
package model
