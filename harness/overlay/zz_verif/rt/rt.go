// Package rt is the harness runtime. Under the symbolic engine (symgo) every function in this
// package is intercepted and given symbolic meaning; the bodies below are the NATIVE face, used
// when a counterexample is replayed against the natively compiled repository code.
package rt

import (
	"bytes"
	"encoding/json"
	"errors"
	"fmt"
	"math/big"
	"os"
	"time"

	sdkmath "cosmossdk.io/math"
	"github.com/cometbft/cometbft/libs/log"
	tmproto "github.com/cometbft/cometbft/proto/tendermint/types"
	"github.com/cosmos/cosmos-sdk/codec"
	codectypes "github.com/cosmos/cosmos-sdk/codec/types"
	sdk "github.com/cosmos/cosmos-sdk/types"
)

type Assignment struct {
	Harness string            `json:"harness"`
	Tier    string            `json:"tier"`
	Label   string            `json:"label"`
	Kind    string            `json:"kind"`
	Inputs  map[string]string `json:"inputs"`
	Choices []int             `json:"choices"`
}

var (
	cur       Assignment
	choicePos int
	Failed    []string
	thorough  bool
)

func Load(path string) (Assignment, error) {
	b, err := os.ReadFile(path)
	if err != nil {
		return cur, err
	}
	cur = Assignment{}
	choicePos = 0
	Failed = nil
	err = json.Unmarshal(b, &cur)
	thorough = cur.Tier == "thorough"
	return cur, err
}

func bigOf(name string) *big.Int {
	s, ok := cur.Inputs[name]
	if !ok || s == "" {
		return new(big.Int)
	}
	n, ok := new(big.Int).SetString(s, 10)
	if !ok {
		panic("rt: bad integer input " + name + "=" + s)
	}
	return n
}

func U64(name string) uint64 { return bigOf(name).Uint64() }
func I64(name string) int64  { return bigOf(name).Int64() }
func U8(name string) uint8   { return uint8(bigOf(name).Uint64()) }
func U32(name string) uint32 { return uint32(bigOf(name).Uint64()) }
func Bool(name string) bool  { return cur.Inputs[name] == "true" }

// Bytes returns n arbitrary bytes (inputs name.0 … name.n-1).
func Bytes(name string, n int) []byte {
	b := make([]byte, n)
	for i := range b {
		b[i] = uint8(bigOf(fmt.Sprintf("%s.%d", name, i)).Uint64())
	}
	return b
}

// BigInt returns a math.Int input in [lo, 2^hiBits].
func BigInt(name string, lo int64, hiBits int) sdkmath.Int {
	return sdkmath.NewIntFromBigInt(bigOf(name))
}

// DecRaw returns a LegacyDec whose raw 18-decimal representation is the input in [lo, 2^hiBits].
func DecRaw(name string, lo int64, hiBits int) sdkmath.LegacyDec {
	return sdkmath.LegacyNewDecFromBigIntWithPrec(bigOf(name), 18)
}

// DecRawMax returns a LegacyDec whose raw 18-decimal representation is the input in [0, max].
func DecRawMax(name string, max string) sdkmath.LegacyDec {
	return sdkmath.LegacyNewDecFromBigIntWithPrec(bigOf(name), 18)
}

func Str(name string) string {
	s := cur.Inputs[name]
	if len(s) >= 2 && s[:2] == "s:" {
		return s[2:]
	}
	return s
}

// Time returns a UTC time between year 1 and year 9999.
func Time(name string) time.Time {
	return time.Unix(I64(name+".sec"), I64(name+".nsec")).UTC()
}

func Choose(n int) int {
	if n <= 1 {
		return 0
	}
	if choicePos >= len(cur.Choices) {
		panic("rt: replay ran out of recorded choices")
	}
	c := cur.Choices[choicePos]
	choicePos++
	return c
}

type assumeFailed struct{}

func Assume(b bool) {
	if !b {
		panic(assumeFailed{})
	}
}

func Assert(label string, b bool) {
	if !b {
		fmt.Println("REPLAY-ASSERT-FAILED", label)
		Failed = append(Failed, label)
	}
}

func Reach(label string)       {}
func Known(id string, b bool)  {}
func Note(s string)            {}

// EnvBarrier separates two runs that must not observe each other's environment: natively it
// lets the wall clock advance past a second boundary; symbolically it is a no-op (every
// time.Now() call already returns a fresh value).
func EnvBarrier() { time.Sleep(1100 * time.Millisecond) }
func Thorough() bool           { return thorough }

// Symbolic: true under the engine, false in the natively compiled replay.
func Symbolic() bool { return false }
func And(a, b bool) bool       { return a && b }
func Or(a, b bool) bool        { return a || b }
func Not(a bool) bool          { return !a }
func Implies(a, b bool) bool   { return !a || b }
func Iff(a, b bool) bool       { return a == b }
func IteU64(c bool, a, b uint64) uint64 {
	if c {
		return a
	}
	return b
}
func IteI64(c bool, a, b int64) int64 {
	if c {
		return a
	}
	return b
}
func IteInt(c bool, a, b sdkmath.Int) sdkmath.Int {
	if c {
		return a
	}
	return b
}

// Catch runs f and reports whether it panicked.
func Catch(f func()) (panicked bool) {
	defer func() {
		if r := recover(); r != nil {
			if _, ok := r.(assumeFailed); ok {
				panic(r)
			}
			panicked = true
		}
	}()
	f()
	return false
}

// RunHarness is used by the replay binary.
func RunHarness(f func()) (outcome string) {
	defer func() {
		if r := recover(); r != nil {
			if _, ok := r.(assumeFailed); ok {
				outcome = "REPLAY-ASSUME-FAILED"
				return
			}
			outcome = fmt.Sprintf("REPLAY-PANIC %v", r)
		}
	}()
	f()
	if len(Failed) > 0 {
		return "REPLAY-FAILED"
	}
	return "REPLAY-OK"
}

// ProtoEqual: the two messages have the same protobuf encoding (nil and empty repeated fields
// are the same thing on the wire).
func ProtoEqual(a, b codec.ProtoMarshaler) bool {
	x, err1 := a.Marshal()
	y, err2 := b.Marshal()
	return err1 == nil && err2 == nil && bytes.Equal(x, y)
}

func ErrIs(err, target error) bool { return errors.Is(err, target) }
func ErrCode(err error) string {
	if err == nil {
		return ""
	}
	return err.Error()
}

// wide exact integers for oracles: natively *big.Int wrapped in math.Int would overflow at 256
// bits, so oracle arithmetic uses Wide.
func IntOfU64(u uint64) sdkmath.Int         { return sdkmath.NewIntFromUint64(u) }
func IntOfI64(i int64) sdkmath.Int          { return sdkmath.NewInt(i) }
func IntEq(a, b sdkmath.Int) bool           { return a.BigInt().Cmp(b.BigInt()) == 0 }
func IntLt(a, b sdkmath.Int) bool           { return a.BigInt().Cmp(b.BigInt()) < 0 }
func IntLe(a, b sdkmath.Int) bool           { return a.BigInt().Cmp(b.BigInt()) <= 0 }
func IntAdd(a, b sdkmath.Int) sdkmath.Int   { return a.Add(b) }
func IntSub(a, b sdkmath.Int) sdkmath.Int   { return a.Sub(b) }
func IntMul(a, b sdkmath.Int) sdkmath.Int   { return a.Mul(b) }
func IntDivFloor(a, b sdkmath.Int) sdkmath.Int {
	q, m := new(big.Int).DivMod(a.BigInt(), b.BigInt(), new(big.Int))
	_ = m
	return sdkmath.NewIntFromBigInt(q)
}
func IntMin(a, b sdkmath.Int) sdkmath.Int {
	if a.LT(b) {
		return a
	}
	return b
}
func IntMax(a, b sdkmath.Int) sdkmath.Int {
	if a.GT(b) {
		return a
	}
	return b
}
func DecRawOf(d sdkmath.LegacyDec) sdkmath.Int { return sdkmath.NewIntFromBigInt(d.BigInt()) }
func TimeSec(t time.Time) sdkmath.Int          { return sdkmath.NewInt(t.Unix()) }
func TimeNsec(t time.Time) sdkmath.Int         { return sdkmath.NewInt(int64(t.Nanosecond())) }
func TimeNanos(t time.Time) sdkmath.Int {
	return sdkmath.NewInt(t.Unix()).MulRaw(1000000000).AddRaw(int64(t.Nanosecond()))
}
// CloneBytes returns a copy of b that shares no memory with it.
func CloneBytes(b []byte) []byte {
	if b == nil {
		return nil
	}
	c := make([]byte, len(b))
	copy(c, b)
	return c
}

func StrLen(s string) int { return len(s) }
func StrEq(a, b string) bool { return a == b }

// IntStr: decimal rendering; Pad9: nine digits with leading zeros (argument in [0,10^9)); IntMod:
// Euclidean modulus.
func IntStr(a sdkmath.Int) string { return a.String() }
func Pad9(a sdkmath.Int) string   { return fmt.Sprintf("%09d", a.Int64()) }
func IntMod(a, b sdkmath.Int) sdkmath.Int {
	return sdkmath.NewIntFromBigInt(new(big.Int).Mod(a.BigInt(), b.BigInt()))
}

// NewContext builds an sdk.Context over the given (model) multistore.
func NewContext(ms sdk.MultiStore, t time.Time, height int64, checkTx bool) sdk.Context {
	return sdk.NewContext(ms, tmproto.Header{Time: t, Height: height, ChainID: "und-verif"}, checkTx, log.NewNopLogger())
}

var cdc codec.BinaryCodec

func Codec() codec.BinaryCodec {
	if cdc == nil {
		cdc = codec.NewProtoCodec(codectypes.NewInterfaceRegistry())
	}
	return cdc
}

func SetThorough(b bool) { thorough = b }
