// Command replay runs one harness natively on a concrete assignment produced by the solver.
package main

import (
	"fmt"
	"os"

	sdk "github.com/cosmos/cosmos-sdk/types"

	"github.com/unification-com/mainchain/zz_verif/w"
	"github.com/unification-com/mainchain/zz_verif/rt"
)

func main() {
	if len(os.Args) < 2 {
		fmt.Println("usage: replay <assignment.json>")
		os.Exit(2)
	}
	cfg := sdk.GetConfig()
	cfg.SetBech32PrefixForAccount("und", "undpub")
	cfg.SetBech32PrefixForValidator("undvaloper", "undvaloperpub")
	cfg.SetBech32PrefixForConsensusNode("undvalcons", "undvalconspub")
	a, err := rt.Load(os.Args[1])
	if err != nil {
		fmt.Println("REPLAY-ERROR", err)
		os.Exit(2)
	}
	f, ok := w.Registry[a.Harness]
	if !ok {
		fmt.Println("REPLAY-ERROR unknown harness", a.Harness)
		os.Exit(2)
	}
	if os.Getenv("VERIF_TIER") == "thorough" {
		rt.SetThorough(true)
	}
	out := rt.RunHarness(f)
	fmt.Println(out)
	if out != "REPLAY-OK" {
		os.Exit(3)
	}
}
