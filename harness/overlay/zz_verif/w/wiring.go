// Package w holds the harnesses that need the application wiring (package app): kept apart from
// package h because loading the whole application is slower.
package w

import (
	authtypes "github.com/cosmos/cosmos-sdk/x/auth/types"

	sdk "github.com/cosmos/cosmos-sdk/types"

	"github.com/unification-com/mainchain/app"
	"github.com/unification-com/mainchain/x/beacon"
	"github.com/unification-com/mainchain/x/enterprise"
	"github.com/unification-com/mainchain/x/wrkchain"
	undcmd "github.com/unification-com/mainchain/cmd/und/cmd"
	undtypes "github.com/unification-com/mainchain/types"
	enttypes "github.com/unification-com/mainchain/x/enterprise/types"
	streamtypes "github.com/unification-com/mainchain/x/stream/types"
	"github.com/unification-com/mainchain/zz_verif/rt"
	"github.com/unification-com/mainchain/zz_verif/rtw"
)

func has(perms []string, p string) bool {
	for _, x := range perms {
		if x == p {
			return true
		}
	}
	return false
}

// H_C02_Wiring: module-account permissions as the application defines them.
func H_C02_Wiring() {
	perms := app.GetMaccPerms()
	for _, name := range []string{"fee_collector", "distribution", "bonded_tokens_pool", "not_bonded_tokens_pool", "gov", "stream", "mint", "wrkchain", "beacon"} {
		rt.Assert("C02.only-enterprise-and-ibc-transfer-may-mint", !has(perms[name], authtypes.Minter))
	}
	n := 0
	for _, name := range []string{"fee_collector", "distribution", "bonded_tokens_pool", "not_bonded_tokens_pool", "gov", "stream", "enterprise", "transfer"} {
		if _, ok := perms[name]; ok {
			n++
		}
	}
	rt.Assert("C02.no-other-module-accounts", n == len(perms))
	ent, okE := perms[enttypes.ModuleName]
	rt.Assert("C02.enterprise-minter-staking-not-burner", okE && has(ent, authtypes.Minter) && has(ent, authtypes.Staking) && !has(ent, authtypes.Burner))
	st, okS := perms[streamtypes.ModuleName]
	rt.Assert("C10.stream-account-cannot-mint-or-burn", okS && !has(st, authtypes.Minter) && !has(st, authtypes.Burner))
	rt.Reach("end")
}

// H_C04_WiringBlocked: the escrow accounts cannot receive bank sends.
func H_C04_WiringBlocked() {
	blocked := app.BlockedAddresses()
	rt.Assert("C04.enterprise-escrow-blocked", blocked[authtypes.NewModuleAddress(enttypes.ModuleName).String()])
	rt.Assert("C10.stream-escrow-blocked", blocked[authtypes.NewModuleAddress(streamtypes.ModuleName).String()])
	// the governance account is the only module account that can raise purchase orders (through an
	// executed proposal); minting to it must not fail in the begin blocker (H_C03_BeginBlock assumes
	// purchasers can receive funds)
	rt.Assert("C14.governance-account-can-receive-minted-efund", !blocked[authtypes.NewModuleAddress("gov").String()])
	rt.Reach("end")
}

func indexOf(xs []string, pred func(string) bool) int {
	for i, x := range xs {
		if pred(x) {
			return i
		}
	}
	return -1
}

func contains(s, sub string) bool {
	for i := 0; i+len(sub) <= len(s); i++ {
		if s[i:i+len(sub)] == sub {
			return true
		}
	}
	return false
}

// H_C13_Wiring: every custom keeper is constructed with the governance module account as the
// only authority for MsgUpdateParams; the signature-verification decorator is in the ante chain.
func H_C13_Wiring() {
	gov := authtypes.NewModuleAddress("gov").String()
	for _, m := range []string{"enterprise", "wrkchain", "beacon", "stream"} {
		rt.Assert("C13.authority-is-governance", rtw.KeeperAuthority(m) == gov)
	}
	if rtw.Static() {
		tr := rtw.StaticTrace("github.com/unification-com/mainchain/ante.NewAnteHandler")
		sig := indexOf(tr, func(s string) bool { return contains(s, "x/auth/ante.NewSigVerificationDecorator") })
		rt.Assert("C13.signature-verification-in-ante-chain", sig >= 0)
	} else {
		rt.Assert("C13.signature-verification-in-ante-chain", !rtw.ProbeBadSignatureAdmitted())
	}
	rt.Reach("end")
}

// H_C06_Wiring: order of the custom decorators in the application's ante chain (the order
// H_C06_Ante assumes), before the SDK fee deduction.
func H_C06_Wiring() {
	if !rtw.Static() {
		// native replay: the observable consequence of the order — a payer holding only locked
		// eFUND is admitted, because the unlock decorator runs before the SDK deducts the fee
		rt.Assert("C06.ante-order", rtw.ProbeLockedOnlyPayerAdmitted())
		return
	}
	tr := rtw.StaticTrace("github.com/unification-com/mainchain/ante.NewAnteHandler")
	wrk := indexOf(tr, func(s string) bool { return contains(s, "x/wrkchain/ante.NewCorrectWrkChainFeeDecorator") })
	bea := indexOf(tr, func(s string) bool { return contains(s, "x/beacon/ante.NewCorrectBeaconFeeDecorator") })
	ent := indexOf(tr, func(s string) bool { return contains(s, "x/enterprise/ante.NewCheckLockedUndDecorator") })
	ded := indexOf(tr, func(s string) bool { return contains(s, "x/auth/ante.NewDeductFeeDecorator") })
	vb := indexOf(tr, func(s string) bool { return contains(s, "x/auth/ante.NewValidateBasicDecorator") })
	rt.Assert("C06.ante-order", vb >= 0 && vb < wrk && wrk < bea && bea < ent && ent < ded)
	rt.Reach("end")
}

// H_C02_WiringModules: no inflationary mint module is wired into the application (the route
// order that C17 needs is in H_C17_WiringSupplyEndpoints).
func H_C02_WiringModules() {
	if !rtw.Static() {
		rt.Assert("C02.no-mint-module", !rtw.HasModule("mint"))
		rt.Assert("C02.enterprise-keeper-constructed", rtw.HasModule("enterprise"))
		return
	}
	tr := rtw.StaticTrace("github.com/unification-com/mainchain/app.NewApp")
	rt.Assert("C02.no-mint-module", indexOf(tr, func(s string) bool { return contains(s, "/x/mint") }) < 0)
	rt.Assert("C02.enterprise-keeper-constructed", indexOf(tr, func(s string) bool { return contains(s, "x/enterprise/keeper.NewKeeper") }) >= 0)
	rt.Reach("end")
}

// H_C09_WiringStores: every custom keeper is constructed over its own module's store key (the
// modules use overlapping key layouts, so a shared store would alias registrations).
func H_C09_WiringStores() {
	for _, m := range []string{"enterprise", "wrkchain", "beacon", "stream"} {
		rt.Assert("C09+C18.keeper-uses-own-store-key", rtw.KeeperStoreKey(m) == m)
	}
	rt.Reach("end")
}

func hasStr(xs []string, want string) bool {
	for _, x := range xs {
		if x == want {
			return true
		}
	}
	return false
}

// H_C06_WiringKeepers: each custom ante decorator is constructed with its own module's keeper
// (the WRKChain and BEACON keepers implement each other's ante interfaces, so a mix-up compiles),
// both in ante.NewAnteHandler and in the options app.NewApp passes to it.
func H_C06_WiringKeepers() {
	if !rtw.Static() {
		// native replay: ask the running application which module's fee each message kind is charged
		rt.Assert("C06.wrkchain-decorator-gets-wrkchain-keeper", rtw.ProbeAnteFeeSource("wrkchain") == "wrkchain")
		rt.Assert("C06.beacon-decorator-gets-beacon-keeper", rtw.ProbeAnteFeeSource("beacon") == "beacon")
		return
	}
	const nah = "github.com/unification-com/mainchain/ante.NewAnteHandler"
	w := rtw.StaticCallArgFields(nah, "x/wrkchain/ante.NewCorrectWrkChainFeeDecorator")
	b := rtw.StaticCallArgFields(nah, "x/beacon/ante.NewCorrectBeaconFeeDecorator")
	e := rtw.StaticCallArgFields(nah, "x/enterprise/ante.NewCheckLockedUndDecorator")
	init := rtw.StaticStructInit("github.com/unification-com/mainchain/app.NewApp", "ante.HandlerOptions")
	// decorator argument -> HandlerOptions field -> application keeper field
	via := func(args []string, i int) string {
		if i >= len(args) {
			return ""
		}
		for _, kv := range init {
			if len(kv) > len(args[i]) && kv[:len(args[i])+1] == args[i]+"=" {
				return kv[len(args[i])+1:]
			}
		}
		return ""
	}
	rt.Assert("C06.wrkchain-decorator-gets-wrkchain-keeper", len(w) == 4 && via(w, 0) == "BankKeeper" && via(w, 2) == "WrkchainKeeper" && via(w, 3) == "EnterpriseKeeper")
	rt.Assert("C06.beacon-decorator-gets-beacon-keeper", len(b) == 4 && via(b, 0) == "BankKeeper" && via(b, 2) == "BeaconKeeper" && via(b, 3) == "EnterpriseKeeper")
	rt.Assert("C05+C06.unlock-decorator-gets-enterprise-keeper", len(e) == 1 && via(e, 0) == "EnterpriseKeeper")
	rt.Reach("end")
}

func lastIndex(xs []string, want string) int {
	idx := -1
	for i, x := range xs {
		if x == want {
			idx = i
		}
	}
	return idx
}

// H_C15_WiringGenesisOrder: the crisis module asserts every registered invariant during its own
// InitGenesis, so a chain started from an exported genesis only comes up if crisis is initialised
// AFTER every module that registers invariants over imported state — of the custom modules:
// enterprise (escrow = total locked) and stream (escrow = sum of deposits); bank before them.
func H_C15_WiringGenesisOrder() {
	order := rtw.InitGenesisOrder()
	crisis := lastIndex(order, "crisis")
	rt.Assert("C15.all-custom-modules-initialised-from-genesis", lastIndex(order, "enterprise") >= 0 && lastIndex(order, "wrkchain") >= 0 && lastIndex(order, "beacon") >= 0 && lastIndex(order, "stream") >= 0)
	rt.Assert("C15.bank-before-escrow-modules", lastIndex(order, "bank") >= 0 && lastIndex(order, "bank") < indexOf(order, func(s string) bool { return s == "enterprise" }) && lastIndex(order, "bank") < indexOf(order, func(s string) bool { return s == "stream" }))
	rt.Assert("C15.invariants-asserted-after-stream-and-enterprise-import", crisis < 0 || (crisis > indexOf(order, func(s string) bool { return s == "stream" }) && crisis > indexOf(order, func(s string) bool { return s == "enterprise" })))
	rt.Reach("end")
}

// H_C10_WiringFeeCollector: the stream keeper pays the validator-fee share of every release to
// the fee collector account (the account x/distribution sweeps), as H_C10_* assume. Also a C15
// obligation: fees paid straight into another module account (e.g. distribution's) make that
// module's own genesis balance check fail when the exported state is imported.
func H_C10_WiringFeeCollector() {
	rt.Assert("C10+C15.stream-fees-go-to-the-fee-collector", rtw.StreamFeeCollector() == authtypes.FeeCollectorName)
	rt.Reach("end")
}

// H_C03_WiringBeginBlock: the enterprise begin blocker is run by the module manager in every
// block, and the upgrade module runs first (store migrations — e.g. the move of the enterprise
// parameters into the module store — must be in place before any module reads its state).
func H_C03_WiringBeginBlock() {
	order := rtw.BeginBlockOrder()
	rt.Assert("C03+C14.enterprise-begin-blocker-registered", lastIndex(order, "enterprise") >= 0)
	rt.Assert("C03+C14.upgrade-runs-before-every-other-begin-blocker", len(order) > 0 && order[0] == "upgrade")
	rt.Reach("end")
}

// H_C17_WiringSupplyEndpoints: every public way of asking for "the total supply" reports the
// Enterprise figure (total minus locked eFUND), not the bank module's: the REST paths of the bank
// module's supply queries are served by the Enterprise overrides (its gateway routes are
// registered first), and the command line's `query supply` and `query bank total` call the
// Enterprise query service.
func H_C17_WiringSupplyEndpoints() {
	const ent = "/mainchain.enterprise.v1.Query/"
	if !rtw.Static() {
		rt.Assert("C17.rest-bank-supply-served-by-enterprise", rtw.ProbeRESTMethod("/cosmos/bank/v1beta1/supply") == ent+"TotalSupplyOverwrite")
		rt.Assert("C17.rest-bank-supply-of-served-by-enterprise", rtw.ProbeRESTMethod("/cosmos/bank/v1beta1/supply/by_denom?denom=nund") == ent+"SupplyOfOverwrite")
		rt.Assert("C17.cli-query-supply-asks-enterprise", rtw.ProbeCLIMethod("query", "supply") == ent+"TotalSupply" && rtw.ProbeCLIMethod("query", "supply", "--denom=nund") == ent+"SupplyOf")
		rt.Assert("C17.cli-bank-total-asks-enterprise", rtw.ProbeCLIMethod("query", "bank", "total") == ent+"TotalSupply" && rtw.ProbeCLIMethod("query", "bank", "total", "--denom=nund") == ent+"SupplyOf")
		return
	}
	rr := rtw.StaticTrace("(*github.com/unification-com/mainchain/app.App).RegisterAPIRoutes")
	lk := indexOf(rr, func(s string) bool { return s == "lookup:enterprise" })
	inv := indexOf(rr, func(s string) bool { return s == "invoke:RegisterGRPCGatewayRoutes" })
	all := indexOf(rr, func(s string) bool { return contains(s, "module.BasicManager).RegisterGRPCGatewayRoutes") })
	rt.Assert("C17.rest-bank-supply-served-by-enterprise", lk >= 0 && lk < inv && inv < all)
	rt.Assert("C17.rest-bank-supply-of-served-by-enterprise", lk >= 0 && lk < inv && inv < all)
	const qc = "invoketype:github.com/unification-com/mainchain/x/enterprise/types.QueryClient."
	entOnly := func(fn string) bool {
		tr := rtw.StaticTrace(fn)
		ts := indexOf(tr, func(s string) bool { return s == qc+"TotalSupply" })
		so := indexOf(tr, func(s string) bool { return s == qc+"SupplyOf" })
		other := indexOf(tr, func(s string) bool {
			return contains(s, "invoketype:") && contains(s, "QueryClient.") && s != qc+"TotalSupply" && s != qc+"SupplyOf"
		})
		return ts >= 0 && so >= 0 && other < 0
	}
	const pkg = "github.com/unification-com/mainchain/cmd/und/cmd."
	qcmd := rtw.StaticTrace(pkg + "queryCommand")
	reg := func(name string) bool { return indexOf(qcmd, func(s string) bool { return s == pkg+name }) >= 0 }
	rt.Assert("C17.cli-query-supply-asks-enterprise", entOnly(pkg+"GetTotalSupplyCmd$1") && reg("GetTotalSupplyCmd"))
	rm := indexOf(qcmd, func(s string) bool { return contains(s, "cobra.Command).RemoveCommand") })
	rt.Assert("C17.cli-bank-total-asks-enterprise", entOnly(pkg+"GetCmdQueryTotalSupplyOverrideBankDefault$1") && reg("GetCmdQueryTotalSupplyOverrideBankDefault") && rm >= 0)
	rt.Reach("end")
}

// H_C19_WiringConvertCmd: the `und convert` command is a pass-through of the exact conversion:
// for every decimal amount (|value| < 10^30, at most nine fractional digits) and both directions
// it fails exactly when types.ConvertUndDenomination fails on the very same arguments and
// otherwise prints "<amount><from> = <exact result>". The reference is the real conversion
// function, which H_C19_* decide against integer arithmetic.
func H_C19_WiringConvertCmd() {
	amt := rt.Str("amount")
	d, perr := sdk.NewDecFromStr(amt)
	rt.Assume(perr == nil)
	raw := rt.DecRawOf(d)
	e9 := sdk.NewInt(1000000000)
	lim := sdk.NewIntFromUint64(1000000000000000000).Mul(sdk.NewIntFromUint64(1000000000000000000)).Mul(sdk.NewInt(1000000000000))
	rt.Assume(rt.IntEq(rt.IntMod(raw, e9), sdk.ZeroInt()))
	rt.Assume(rt.And(rt.IntLt(raw, lim), rt.IntLt(lim.Neg(), raw)))
	from, to := "fund", "nund"
	if rt.Choose(2) == 1 {
		from, to = "nund", "fund"
	}
	want, werr := undtypes.ConvertUndDenomination(amt, from, to)
	c := undcmd.GetDenomConversionCmd()
	rtw.PrepareCmd(c)
	err := c.RunE(c, []string{amt, from, to})
	out := rtw.Printed()
	rt.Assert("C19.cli-fails-exactly-when-conversion-fails", (err != nil) == (werr != nil))
	if err == nil && werr == nil {
		rt.Assert("C19.cli-prints-the-exact-conversion-of-its-arguments", rt.StrEq(out, amt+from+" = "+want+"\n"))
		rt.Reach("converted")
	}
	rt.Reach("end")
}

// H_C16_WiringMigrations: the upgrade path that carries the parameters of enterprise / wrkchain /
// beacon from the legacy x/params subspaces into the module stores is wired to the right places:
// each module is constructed with ITS OWN subspace (the three Params types have identical field
// layouts for wrkchain and beacon, so a mix-up reads plausible values), registers its migration
// from consensus version 2, and declares consensus version 3. Native face: the real module
// manager's RunMigrations from version 2 on the real application.
func H_C16_WiringMigrations() {
	for _, m := range []string{"enterprise", "wrkchain", "beacon"} {
		rt.Assert("C16.module-migrates-from-its-own-legacy-subspace", rtw.ModuleLegacySubspace(m) == m)
	}
	rt.Assert("C16.consensus-version-3", enterprise.AppModule{}.ConsensusVersion() == 3 && wrkchain.AppModule{}.ConsensusVersion() == 3 && beacon.AppModule{}.ConsensusVersion() == 3)
	if rtw.Static() {
		for _, m := range []string{"enterprise", "wrkchain", "beacon"} {
			args := rtw.StaticCallConstArgs("(github.com/unification-com/mainchain/x/"+m+".AppModule).RegisterServices", "invoke:RegisterMigration")
			rt.Assert("C16.migration-registered-from-version-2", len(args) == 3 && args[0] == "\""+m+"\"" && args[1] == "2")
		}
	} else {
		for _, m := range []string{"enterprise", "wrkchain", "beacon"} {
			res := rtw.ProbeUpgradeMigration(m)
			if res != "ok" {
				println("upgrade probe", m, ":", res)
			}
			rt.Assert("C16.migration-registered-from-version-2", res == "ok")
		}
	}
	rt.Reach("end")
}

// H_C04_WiringBankModel: trusted-base self-check. The ledger model that stands in for x/bank and
// x/auth in every symbolic harness is compared with the real keepers of the real application on a
// battery of concrete delegate / undelegate / send sequences (base and vesting accounts). There
// is nothing to decide symbolically; the native face runs in the native self-check of the check.
func H_C04_WiringBankModel() {
	if !rtw.Static() {
		d := rtw.BankModelDiff()
		if d != "" {
			println("bank model differs from the real bank:", d)
		}
		rt.Assert("INV.trusted-base.bank-model-agrees-with-the-real-bank", d == "")
	}
	rt.Reach("end")
}

// H_C20_WiringStoreModel: trusted-base self-check of the KV-store model (see rtw.StoreModelDiff).
func H_C20_WiringStoreModel() {
	if !rtw.Static() {
		d := rtw.StoreModelDiff()
		if d != "" {
			println("store model differs from the real store:", d)
		}
		rt.Assert("INV.trusted-base.store-model-agrees-with-the-real-store", d == "")
	}
	rt.Reach("end")
}
