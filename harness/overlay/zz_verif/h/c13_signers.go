package h

import (
	"bytes"

	sdk "github.com/cosmos/cosmos-sdk/types"

	beacontypes "github.com/unification-com/mainchain/x/beacon/types"
	enttypes "github.com/unification-com/mainchain/x/enterprise/types"
	streamtypes "github.com/unification-com/mainchain/x/stream/types"
	wrktypes "github.com/unification-com/mainchain/x/wrkchain/types"
	"github.com/unification-com/mainchain/zz_verif/rt"
)

func soleSigner(s []sdk.AccAddress, want sdk.AccAddress) bool {
	return len(s) == 1 && bytes.Equal(s[0], want)
}

// H_C13_Signers: for each of the 19 message types, GetSigners() — the accounts whose signatures
// baseapp verifies — is exactly the party the message servers treat as entitled: the account field
// the H_C03/C07/C08/C09/C10/C16 harnesses show the effect to be keyed on. Every address field of a
// message is filled from a different pool actor so that a mix-up of fields is visible.
func H_C13_Signers() {
	a, b, c := Addr(rt.Choose(3)), Addr(3), Addr(4) // the entitled party / two other parties
	A, B, C := a.String(), b.String(), c.String()
	coin := sdk.NewInt64Coin("nund", 100)
	// enterprise
	rt.Assert("C13.signer.raise=purchaser", soleSigner(enttypes.MsgUndPurchaseOrder{Purchaser: A, Amount: coin}.GetSigners(), a))
	rt.Assert("C13.signer.decide=signer", soleSigner(enttypes.MsgProcessUndPurchaseOrder{PurchaseOrderId: 1, Decision: enttypes.StatusAccepted, Signer: A}.GetSigners(), a))
	rt.Assert("C13.signer.whitelist=signer", soleSigner(enttypes.MsgWhitelistAddress{Address: B, Signer: A, Action: enttypes.WhitelistActionAdd}.GetSigners(), a))
	rt.Assert("C13.signer.ent-params=authority", soleSigner((&enttypes.MsgUpdateParams{Authority: A}).GetSigners(), a))
	// wrkchain
	rt.Assert("C13.signer.wrk-register=owner", soleSigner(wrktypes.MsgRegisterWrkChain{Moniker: "m", Owner: A}.GetSigners(), a))
	rt.Assert("C13.signer.wrk-record=owner", soleSigner(wrktypes.MsgRecordWrkChainBlock{WrkchainId: 1, Height: 1, BlockHash: "h", Owner: A}.GetSigners(), a))
	rt.Assert("C13.signer.wrk-purchase=owner", soleSigner(wrktypes.MsgPurchaseWrkChainStateStorage{WrkchainId: 1, Number: 1, Owner: A}.GetSigners(), a))
	rt.Assert("C13.signer.wrk-params=authority", soleSigner((&wrktypes.MsgUpdateParams{Authority: A}).GetSigners(), a))
	// beacon
	rt.Assert("C13.signer.beacon-register=owner", soleSigner(beacontypes.MsgRegisterBeacon{Moniker: "m", Name: "n", Owner: A}.GetSigners(), a))
	rt.Assert("C13.signer.beacon-record=owner", soleSigner(beacontypes.MsgRecordBeaconTimestamp{BeaconId: 1, Hash: "h", SubmitTime: 1, Owner: A}.GetSigners(), a))
	rt.Assert("C13.signer.beacon-purchase=owner", soleSigner(beacontypes.MsgPurchaseBeaconStateStorage{BeaconId: 1, Number: 1, Owner: A}.GetSigners(), a))
	rt.Assert("C13.signer.beacon-params=authority", soleSigner((&beacontypes.MsgUpdateParams{Authority: A}).GetSigners(), a))
	// stream: sender for create/top-up/update/cancel, receiver for claim
	rt.Assert("C13.signer.create=sender", soleSigner(streamtypes.MsgCreateStream{Receiver: B, Sender: A, Deposit: coin, FlowRate: 1}.GetSigners(), a))
	rt.Assert("C13.signer.claim=receiver", soleSigner(streamtypes.MsgClaimStream{Receiver: A, Sender: B}.GetSigners(), a))
	rt.Assert("C13.signer.topup=sender", soleSigner(streamtypes.MsgTopUpDeposit{Receiver: B, Sender: A, Deposit: coin}.GetSigners(), a))
	rt.Assert("C13.signer.update=sender", soleSigner(streamtypes.MsgUpdateFlowRate{Receiver: B, Sender: A, FlowRate: 1}.GetSigners(), a))
	rt.Assert("C13.signer.cancel=sender", soleSigner(streamtypes.MsgCancelStream{Receiver: B, Sender: A}.GetSigners(), a))
	rt.Assert("C13.signer.stream-params=authority", soleSigner((&streamtypes.MsgUpdateParams{Authority: A}).GetSigners(), a))
	_ = C
	rt.Reach("end")
}

// H_C13_StreamRoles: the stream message servers act on exactly the stream (receiver, sender)
// named in the message: with two streams between three actors, an operation on one never touches
// the other, and pays/refunds only the named parties.
func H_C13_StreamRoles() {
	now := AnyBlockTime("now")
	se := NewStreamEnv(now)
	_ = se.K.SetParams(se.Ctx, streamtypes.Params{ValidatorFee: sdk.NewDecWithPrec(1, 2)})
	pre := setupStream(se, "nund") // stream actor1 -> actor0
	third := Addr(2)
	se.Bank.AddBase(third)
	// a second stream actor1 -> actor2 of the same denomination, fully funded and live
	other := streamtypes.Stream{Deposit: sdk.NewCoin("nund", pre.Other), FlowRate: 1, LastOutflowTime: now, DepositZeroTime: now.Add(3600e9), Cancellable: true}
	_ = se.K.SetStream(se.Ctx, third, pre.Sender, other)
	srv := NewStreamMsgServer(se)
	op := rt.Choose(3)
	var err error
	switch op {
	case 0:
		_, err = srv.ClaimStream(sdk.WrapSDKContext(se.Ctx), &streamtypes.MsgClaimStream{Receiver: pre.Receiver.String(), Sender: pre.Sender.String()})
	case 1:
		_, err = srv.CancelStream(sdk.WrapSDKContext(se.Ctx), &streamtypes.MsgCancelStream{Receiver: pre.Receiver.String(), Sender: pre.Sender.String()})
	case 2:
		nr := rt.I64("newRate")
		m := &streamtypes.MsgUpdateFlowRate{Receiver: pre.Receiver.String(), Sender: pre.Sender.String(), FlowRate: nr}
		rt.Assume(m.ValidateBasic() == nil)
		_, err = srv.UpdateFlowRate(sdk.WrapSDKContext(se.Ctx), m)
	}
	if err != nil {
		return
	}
	rt.Reach("op-ok")
	o2, found := se.K.GetStream(se.Ctx, third, pre.Sender)
	rt.Assert("C13.other-stream-untouched", rt.And(found, rt.And(rt.IntEq(o2.Deposit.Amount, pre.Other), rt.And(o2.FlowRate == 1, rt.And(o2.LastOutflowTime.Equal(now), o2.DepositZeroTime.Equal(other.DepositZeroTime))))))
	rt.Assert("C13.third-party-not-paid", rt.IntEq(se.Bank.Bal(third, "nund"), sdk.ZeroInt()))
}
