package h

import (
	sdk "github.com/cosmos/cosmos-sdk/types"

	beacontypes "github.com/unification-com/mainchain/x/beacon/types"
	enttypes "github.com/unification-com/mainchain/x/enterprise/types"
	streamtypes "github.com/unification-com/mainchain/x/stream/types"
	wrktypes "github.com/unification-com/mainchain/x/wrkchain/types"
	"github.com/unification-com/mainchain/zz_verif/rt"
)

// The point queries are what a user (or a verifying third party) actually reads a record through.
// Each harness asks the real gRPC handler for an arbitrary symbolic key in an arbitrary invariant
// pre-state and compares with what the pre-state construction put there (not with another getter).

// H_C20_WrkPoint: WrkChain / WrkChainBlock for any (id, height).
func H_C20_WrkPoint() {
	now := AnyBlockTime("now")
	we := NewWrkEnv(now)
	maxN := 2
	if rt.Thorough() {
		maxN = 3
	}
	pre := setupWrk(we, maxN)
	snap := we.MS.Snapshot()
	qid, qh := rt.U64("q.id"), rt.U64("q.height")
	c := sdk.WrapSDKContext(we.Ctx)
	res, err := we.K.WrkChainBlock(c, &wrktypes.QueryWrkChainBlockRequest{WrkchainId: qid, Height: qh})
	hit := false
	if qid == pre.ID {
		for i := 0; i < pre.N; i++ {
			if qh == pre.H[i] {
				hit = true
				rt.Assert("C07+C20.wrk-block-query-returns-the-stored-record", err == nil && res.Block != nil && *res.Block == pre.B[i] && res.WrkchainId == pre.ID && res.Owner == pre.WC.Owner)
				rt.Reach("hit-main")
			}
		}
	}
	if qid == pre.ID2 && qh == pre.G {
		hit = true
		rt.Assert("C07+C18+C20.wrk-block-query-returns-the-foreign-record", err == nil && res.Block != nil && *res.Block == pre.GB && res.WrkchainId == pre.ID2 && res.Owner == pre.WC2.Owner)
		rt.Reach("hit-foreign")
	}
	if !hit {
		rt.Assert("C07+C20.wrk-block-query-unknown-is-an-error", err != nil)
		rt.Reach("miss")
	}
	wres, werr := we.K.WrkChain(c, &wrktypes.QueryWrkChainRequest{WrkchainId: qid})
	if qid == pre.ID {
		rt.Assert("C09+C20.wrk-query-returns-the-registration", werr == nil && wres.Wrkchain != nil && *wres.Wrkchain == pre.WC)
	} else if qid == pre.ID2 {
		rt.Assert("C09+C20.wrk-query-returns-the-registration", werr == nil && wres.Wrkchain != nil && *wres.Wrkchain == pre.WC2)
	} else {
		rt.Assert("C09+C20.wrk-query-unknown-is-an-error", werr != nil)
	}
	rt.Assert("C20.wrk-point-queries-read-only", we.MS.SameAs(snap))
	rt.Reach("end")
}

// H_C20_BeaconPoint: Beacon / BeaconTimestamp for any (id, timestamp id).
func H_C20_BeaconPoint() {
	now := AnyBlockTime("now")
	be := NewBeaconEnv(now)
	maxN := 2
	if rt.Thorough() {
		maxN = 3
	}
	pre := setupBeacon(be, maxN)
	snap := be.MS.Snapshot()
	qid, qt := rt.U64("q.id"), rt.U64("q.ts")
	c := sdk.WrapSDKContext(be.Ctx)
	res, err := be.K.BeaconTimestamp(c, &beacontypes.QueryBeaconTimestampRequest{BeaconId: qid, TimestampId: qt})
	hit := false
	if qid == pre.ID {
		for i := 0; i < pre.N; i++ {
			if qt == pre.First+uint64(i) {
				hit = true
				rt.Assert("C07+C20.beacon-timestamp-query-returns-the-stored-record", err == nil && res.Timestamp != nil && *res.Timestamp == pre.T[i] && res.BeaconId == pre.ID && res.Owner == pre.B.Owner)
				rt.Reach("hit-main")
			}
		}
	}
	if qid == pre.ID2 && qt == pre.G {
		hit = true
		rt.Assert("C07+C18+C20.beacon-timestamp-query-returns-the-foreign-record", err == nil && res.Timestamp != nil && *res.Timestamp == pre.GT && res.BeaconId == pre.ID2 && res.Owner == pre.B2.Owner)
		rt.Reach("hit-foreign")
	}
	if !hit {
		rt.Assert("C07+C20.beacon-timestamp-query-unknown-is-an-error", err != nil)
		rt.Reach("miss")
	}
	bres, berr := be.K.Beacon(c, &beacontypes.QueryBeaconRequest{BeaconId: qid})
	if qid == pre.ID {
		rt.Assert("C09+C20.beacon-query-returns-the-registration", berr == nil && bres.Beacon != nil && *bres.Beacon == pre.B)
	} else if qid == pre.ID2 {
		rt.Assert("C09+C20.beacon-query-returns-the-registration", berr == nil && bres.Beacon != nil && *bres.Beacon == pre.B2)
	} else {
		rt.Assert("C09+C20.beacon-query-unknown-is-an-error", berr != nil)
	}
	rt.Assert("C20.beacon-point-queries-read-only", be.MS.SameAs(snap))
	rt.Reach("end")
}

// H_C20_EntPoint: purchase order by id, per-account locked / spent / account summary, total spent.
func H_C20_EntPoint() {
	now := AnyBlockTime("now")
	ee := NewEntEnvOn(NewEnv(now, false), 1)
	k, ctx := ee.K, ee.Ctx
	books := setupBooksOpt(ee, true)
	id := rt.U64("po.id")
	rt.Assume(id >= 1)
	po := anyOrder("po", id, Addr(0), enttypes.PurchaseOrderStatus(1+rt.Choose(4)), 1, uint64(now.Unix()))
	_ = k.SetPurchaseOrder(ctx, po)
	k.SetHighestPurchaseOrderID(ctx, 99)
	liquid := rt.BigInt("acc0.liquid", 0, 128)
	ee.Bank.Fund(Addr(0), "nund", liquid)
	snap := ee.MS.Snapshot()
	c := sdk.WrapSDKContext(ctx)
	qid := rt.U64("q.id")
	res, err := k.EnterpriseUndPurchaseOrder(c, &enttypes.QueryEnterpriseUndPurchaseOrderRequest{PurchaseOrderId: qid})
	if qid == id {
		rt.Assert("C03+C20.order-query-returns-the-stored-order", err == nil && res.PurchaseOrder.Id == po.Id && res.PurchaseOrder.Purchaser == po.Purchaser &&
			res.PurchaseOrder.Status == po.Status && rt.IntEq(res.PurchaseOrder.Amount.Amount, po.Amount.Amount) && res.PurchaseOrder.RaiseTime == po.RaiseTime &&
			res.PurchaseOrder.CompletionTime == po.CompletionTime && decisionsEq(res.PurchaseOrder.Decisions, po.Decisions))
		rt.Reach("order-hit")
	} else {
		rt.Assert("C03+C20.order-query-unknown-is-an-error", err != nil)
		rt.Reach("order-miss")
	}
	who := rt.Choose(3) // two accounts with books, one without
	want := func(xs [2]sdk.Int) sdk.Int {
		if who < 2 {
			return xs[who]
		}
		return sdk.ZeroInt()
	}
	lr, lerr := k.LockedUndByAddress(c, &enttypes.QueryLockedUndByAddressRequest{Owner: Addr(who).String()})
	rt.Assert("C04+C17+C20.locked-query-reports-the-account's-books", lerr == nil && lr.Amount.Denom == "nund" && rt.IntEq(lr.Amount.Amount, want(books.Locked)))
	sr, serr := k.SpentEFUNDByAddress(c, &enttypes.QuerySpentEFUNDByAddressRequest{Address: Addr(who).String()})
	rt.Assert("C04+C17+C20.spent-query-reports-the-account's-books", serr == nil && sr.Amount.Denom == "nund" && rt.IntEq(sr.Amount.Amount, want(books.Spent)))
	tr, terr := k.TotalSpentEFUND(c, &enttypes.QueryTotalSpentEFUNDRequest{})
	rt.Assert("C04+C17+C20.total-spent-query=sum", terr == nil && rt.IntEq(tr.Amount.Amount, books.OtherSpent.Add(books.Spent[0]).Add(books.Spent[1])))
	ar, aerr := k.EnterpriseAccount(c, &enttypes.QueryEnterpriseAccountRequest{Address: Addr(0).String()})
	rt.Assert("C05+C17+C20.account-summary-consistent", aerr == nil && ar.Account.Owner == Addr(0).String() &&
		rt.IntEq(ar.Account.LockedEfund.Amount, books.Locked[0]) && rt.IntEq(ar.Account.GeneralSupply.Amount, liquid) &&
		rt.IntEq(ar.Account.SpentEfund.Amount, books.Spent[0]) && rt.IntEq(ar.Account.Spendable.Amount, liquid.Add(books.Locked[0])))
	rt.Assert("C20.ent-point-queries-read-only", ee.MS.SameAs(snap))
	rt.Reach("end")
}

// H_C20_StreamPoint: StreamByReceiverSender / current flow for the stored pair, the reversed pair
// and an uninvolved pair.
func H_C20_StreamPoint() {
	now := AnyBlockTime("now")
	se := NewStreamEnv(now)
	pre := setupStream(se, "nund")
	st, _ := se.K.GetStream(se.Ctx, pre.Receiver, pre.Sender)
	snap := se.MS.Snapshot()
	c := sdk.WrapSDKContext(se.Ctx)
	type pair struct{ r, s sdk.AccAddress }
	pairs := []pair{{pre.Receiver, pre.Sender}, {pre.Sender, pre.Receiver}, {pre.Receiver, Addr(2)}}
	w := rt.Choose(len(pairs))
	res, err := se.K.StreamByReceiverSender(c, &streamtypes.QueryStreamByReceiverSenderRequest{ReceiverAddr: pairs[w].r.String(), SenderAddr: pairs[w].s.String()})
	fres, ferr := se.K.StreamReceiverSenderCurrentFlow(c, &streamtypes.QueryStreamReceiverSenderCurrentFlowRequest{ReceiverAddr: pairs[w].r.String(), SenderAddr: pairs[w].s.String()})
	if w == 0 {
		rt.Assert("C10+C18+C20.stream-query-returns-the-stored-stream", err == nil && res.Stream.Receiver == pre.Receiver.String() && res.Stream.Sender == pre.Sender.String() &&
			res.Stream.Stream != nil && rt.IntEq(res.Stream.Stream.Deposit.Amount, pre.Deposit) && res.Stream.Stream.Deposit.Denom == "nund" && res.Stream.Stream.FlowRate == pre.Rate &&
			res.Stream.Stream.LastOutflowTime.Equal(st.LastOutflowTime) && res.Stream.Stream.DepositZeroTime.Equal(st.DepositZeroTime) && res.Stream.Stream.Cancellable)
		rt.Assert("C11+C20.flow-query-reports-the-agreed-rate", ferr == nil && fres.ConfiguredFlowRate == pre.Rate && (fres.CurrentFlowRate == pre.Rate || fres.CurrentFlowRate == 0))
		rt.Assert("C11+C20.flow-query-zero-only-when-exhausted", ferr == nil && rt.Implies(fres.CurrentFlowRate == 0, rt.Or(rt.IntEq(pre.Deposit, sdk.ZeroInt()), st.DepositZeroTime.Before(now))))
		rt.Reach("hit")
	} else {
		rt.Assert("C18+C20.stream-query-other-pair-is-an-error", err != nil && ferr != nil)
		rt.Reach("miss")
	}
	rt.Assert("C20.stream-point-queries-read-only", se.MS.SameAs(snap))
	rt.Reach("end")
}
