package h

import (
	"strings"
	"time"

	storetypes "github.com/cosmos/cosmos-sdk/store/types"
	sdk "github.com/cosmos/cosmos-sdk/types"

	wrkkeeper "github.com/unification-com/mainchain/x/wrkchain/keeper"
	wrktypes "github.com/unification-com/mainchain/x/wrkchain/types"
	"github.com/unification-com/mainchain/zz_verif/model"
	"github.com/unification-com/mainchain/zz_verif/rt"
)

// ---------- WRKChain environment and INV-W pre-state ----------

type WrkEnv struct {
	*Env
	K      wrkkeeper.Keeper
	Key    *storetypes.KVStoreKey
	Params wrktypes.Params
}

// AnyWrkParams: any parameter set accepted by Params.Validate (denomination fixed to nund here;
// denominations are the subject of C16).
func AnyWrkParams(tag string) wrktypes.Params {
	return wrktypes.Params{
		FeeRegister:         rt.U64(tag + ".feeRegister"),
		FeeRecord:           rt.U64(tag + ".feeRecord"),
		FeePurchaseStorage:  rt.U64(tag + ".feePurchase"),
		Denom:               "nund",
		DefaultStorageLimit: rt.U64(tag + ".defaultLimit"),
		MaxStorageLimit:     rt.U64(tag + ".maxLimit"),
	}
}

func NewWrkEnv(now time.Time) *WrkEnv { return NewWrkEnvOn(NewEnv(now, false), "p") }

func NewWrkEnvOn(e *Env, tag string) *WrkEnv {
	key := storetypes.NewKVStoreKey(wrktypes.StoreKey)
	k := wrkkeeper.NewKeeper(key, rt.Codec(), Authority())
	we := &WrkEnv{Env: e, K: k, Key: key}
	we.Params = AnyWrkParams(tag)
	rt.Assume(we.Params.Validate() == nil)
	_ = k.SetParams(e.Ctx, we.Params)
	return we
}

func (we *WrkEnv) Store() *model.MemStore { return we.MS.Store(wrktypes.StoreKey) }

// wrkPre: one WRKChain `ID` owned by Addr(0) with N in-state records at heights H[0]<…<H[N-1],
// limit L, plus a foreign WRKChain `ID2` owned by Addr(1) with one record at height G.
type wrkPre struct {
	ID, ID2, Highest uint64
	N                int
	H                [3]uint64
	B                [3]wrktypes.WrkChainBlock
	L, L2            uint64
	WC, WC2          wrktypes.WrkChain
	G                uint64
	GB               wrktypes.WrkChainBlock
}

func anyWrkBlock(tag string, height uint64) wrktypes.WrkChainBlock {
	return wrktypes.WrkChainBlock{
		Height:     height,
		Blockhash:  rt.Str(tag + ".bh"),
		Parenthash: rt.Str(tag + ".ph"),
		Hash1:      rt.Str(tag + ".h1"),
		Hash2:      rt.Str(tag + ".h2"),
		Hash3:      rt.Str(tag + ".h3"),
		SubTime:    rt.U64(tag + ".st"),
	}
}

// setupWrk builds an INV-W state through the real setters. maxN ≤ 3.
func setupWrk(we *WrkEnv, maxN int) wrkPre {
	var pre wrkPre
	k, ctx := we.K, we.Ctx
	pre.ID, pre.ID2, pre.Highest = rt.U64("id"), rt.U64("id2"), rt.U64("highest")
	rt.Assume(rt.And(pre.ID >= 1, rt.And(pre.ID2 >= 1, pre.ID != pre.ID2)))
	rt.Assume(rt.And(pre.ID < pre.Highest, pre.ID2 < pre.Highest))
	k.SetHighestWrkChainID(ctx, pre.Highest)
	pre.N = rt.Choose(maxN + 1)
	pre.H[0], pre.H[1], pre.H[2] = rt.U64("h0"), rt.U64("h1"), rt.U64("h2")
	rt.Assume(rt.And(pre.H[0] > 0, rt.And(pre.H[0] < pre.H[1], pre.H[1] < pre.H[2])))
	for i := 0; i < pre.N; i++ {
		pre.B[i] = anyWrkBlock("b"+string(rune('0'+i)), pre.H[i])
		_ = k.SetWrkChainBlock(ctx, pre.ID, pre.B[i])
	}
	pre.L = rt.U64("limit")
	rt.Assume(rt.And(pre.L >= 1, uint64(pre.N) <= pre.L))
	_ = k.SetWrkChainStorageLimit(ctx, pre.ID, pre.L)
	last, lowest := uint64(0), uint64(0)
	if pre.N > 0 {
		last, lowest = pre.H[pre.N-1], pre.H[0]
	}
	pre.WC = wrktypes.WrkChain{
		WrkchainId: pre.ID, Moniker: rt.Str("wc.moniker"), Name: rt.Str("wc.name"), Genesis: rt.Str("wc.genesis"),
		Type: rt.Str("wc.type"), Lastblock: last, NumBlocks: uint64(pre.N), LowestHeight: lowest,
		RegTime: rt.U64("wc.regtime"), Owner: Addr(0).String(),
	}
	_ = k.SetWrkChain(ctx, pre.WC)
	// foreign chain
	pre.G = rt.U64("g")
	rt.Assume(pre.G > 0)
	pre.GB = anyWrkBlock("gb", pre.G)
	_ = k.SetWrkChainBlock(ctx, pre.ID2, pre.GB)
	pre.L2 = rt.U64("limit2")
	rt.Assume(pre.L2 >= 1)
	_ = k.SetWrkChainStorageLimit(ctx, pre.ID2, pre.L2)
	pre.WC2 = wrktypes.WrkChain{
		WrkchainId: pre.ID2, Moniker: rt.Str("wc2.moniker"), Name: rt.Str("wc2.name"), Genesis: rt.Str("wc2.genesis"),
		Type: rt.Str("wc2.type"), Lastblock: pre.G, NumBlocks: 1, LowestHeight: pre.G,
		RegTime: rt.U64("wc2.regtime"), Owner: Addr(1).String(),
	}
	_ = k.SetWrkChain(ctx, pre.WC2)
	return pre
}

// foreignUntouched: the other chain, its record and its limit read back exactly as stored.
func wrkForeignUntouched(we *WrkEnv, pre wrkPre) bool {
	wc2, f2 := we.K.GetWrkChain(we.Ctx, pre.ID2)
	gb, fg := we.K.GetWrkChainBlock(we.Ctx, pre.ID2, pre.G)
	l2, fl := we.K.GetWrkChainStorageLimit(we.Ctx, pre.ID2)
	return rt.And(rt.And(f2, wc2 == pre.WC2), rt.And(rt.And(fg, gb == pre.GB), rt.And(fl, l2.InStateLimit == pre.L2)))
}

func wrkIdentityUnchanged(a, b wrktypes.WrkChain) bool {
	return rt.And(rt.And(a.WrkchainId == b.WrkchainId, rt.And(a.Moniker == b.Moniker, a.Name == b.Name)),
		rt.And(rt.And(a.Genesis == b.Genesis, a.Type == b.Type), rt.And(a.Owner == b.Owner, a.RegTime == b.RegTime)))
}

// H_C07_WrkRecord: one RecordWrkChainBlock step from an arbitrary INV-W state, any signer from
// the pool, any target id (the chain, the foreign chain, or an unknown id), any height and hashes
// accepted by ValidateBasic.
func H_C07_WrkRecord() {
	now := AnyBlockTime("now")
	we := NewWrkEnv(now)
	maxN := 2
	if rt.Thorough() {
		maxN = 3
	}
	pre := setupWrk(we, maxN)
	signer := rt.Choose(3)
	msg := &wrktypes.MsgRecordWrkChainBlock{
		WrkchainId: rt.U64("m.id"), Height: rt.U64("m.height"),
		BlockHash: rt.Str("m.bh"), ParentHash: rt.Str("m.ph"), Hash1: rt.Str("m.h1"), Hash2: rt.Str("m.h2"), Hash3: rt.Str("m.h3"),
		Owner: Addr(signer).String(),
	}
	rt.Assume(msg.ValidateBasic() == nil)
	snap := we.MS.Snapshot()
	srv := wrkkeeper.NewMsgServerImpl(we.K)

	var err error
	var res *wrktypes.MsgRecordWrkChainBlockResponse
	panicked := rt.Catch(func() {
		res, err = srv.RecordWrkChainBlock(sdk.WrapSDKContext(we.Ctx), msg)
	})
	rt.Assert("C14.record-no-panic", !panicked)
	if panicked {
		return
	}
	// who may record what (C07 monotone heights, C09/C13 sole writer)
	onMain := msg.WrkchainId == pre.ID
	onForeign := msg.WrkchainId == pre.ID2
	expectOK := rt.Or(
		rt.And(onMain, rt.And(signer == 0, msg.Height > pre.WC.Lastblock)),
		rt.And(onForeign, rt.And(signer == 1, msg.Height > pre.WC2.Lastblock)))
	rt.Assert("C07.record-accepted-iff-owner-and-higher", rt.Iff(err == nil, expectOK))
	rt.Assert("C13.record-only-owner", rt.Implies(err == nil, rt.Or(rt.And(onMain, signer == 0), rt.And(onForeign, signer == 1))))
	rt.Assert("C09.record-unknown-id-rejected", rt.Implies(rt.And(!onMain, !onForeign), err != nil))
	if err != nil {
		rt.Reach("record-rejected")
		rt.Assert("C07+C09+C13+C14.rejected-changes-nothing", we.MS.SameAs(snap))
		return
	}
	if !onMain {
		rt.Reach("record-on-foreign")
		return
	}
	rt.Reach("record-ok")
	rt.Assert("C07.response", rt.And(res.WrkchainId == pre.ID, res.Height == msg.Height))
	n := uint64(pre.N)
	pruned := n+1 > pre.L
	// every pre-existing record is byte-identical, except the single oldest one when the limit is hit
	for i := 0; i < pre.N; i++ {
		blk, found := we.K.GetWrkChainBlock(we.Ctx, pre.ID, pre.H[i])
		if i == 0 {
			rt.Assert("C08.prune-oldest-iff-over-limit", rt.Iff(found, !pruned))
		} else {
			rt.Assert("C07.old-record-kept", found)
		}
		rt.Assert("C07+C18.old-record-unchanged", rt.Implies(found, blk == pre.B[i]))
	}
	if pruned {
		rt.Reach("record-pruned")
	} else {
		rt.Reach("record-not-pruned")
	}
	nb, found := we.K.GetWrkChainBlock(we.Ctx, pre.ID, msg.Height)
	want := wrktypes.WrkChainBlock{Height: msg.Height, Blockhash: msg.BlockHash, Parenthash: msg.ParentHash,
		Hash1: msg.Hash1, Hash2: msg.Hash2, Hash3: msg.Hash3, SubTime: uint64(now.Unix())}
	rt.Assert("C07+C09.new-record-exact", rt.And(found, nb == want))
	// counters match what is stored (C08)
	wc, _ := we.K.GetWrkChain(we.Ctx, pre.ID)
	all := we.K.GetAllWrkChainBlockHashes(we.Ctx, pre.ID)
	rt.Assert("INV.num-matches-store", wc.NumBlocks == uint64(len(all)))
	rt.Assert("INV.num=min(n+1,limit)", wc.NumBlocks == rt.IteU64(pruned, n, n+1))
	rt.Assert("INV.within-limit", wc.NumBlocks <= pre.L)
	rt.Assert("INV.last=new", wc.Lastblock == msg.Height)
	if len(all) > 0 {
		rt.Assert("INV.lowest=first-in-store", wc.LowestHeight == all[0].Height)
		rt.Assert("INV.last-in-store=new", all[len(all)-1].Height == msg.Height)
	}
	for i := 1; i < len(all); i++ {
		rt.Assert("C18.list-ascending", all[i-1].Height < all[i].Height)
	}
	rt.Assert("C09.identity-immutable", wrkIdentityUnchanged(wc, pre.WC))
	l, fl := we.K.GetWrkChainStorageLimit(we.Ctx, pre.ID)
	rt.Assert("C08.limit-unchanged-by-record", rt.And(fl, l.InStateLimit == pre.L))
	hi, _ := we.K.GetHighestWrkChainID(we.Ctx)
	rt.Assert("C09.highest-unchanged", hi == pre.Highest)
	rt.Assert("C07+C09+C18.foreign-untouched", wrkForeignUntouched(we, pre))
	rt.Assert("C16.params-untouched", we.K.GetParams(we.Ctx) == we.Params)
}

// H_C08_WrkPurchase: one PurchaseWrkChainStateStorage step.
func H_C08_WrkPurchase() {
	now := AnyBlockTime("now")
	we := NewWrkEnv(now)
	pre := setupWrk(we, 1)
	signer := rt.Choose(3)
	msg := &wrktypes.MsgPurchaseWrkChainStateStorage{WrkchainId: rt.U64("m.id"), Number: rt.U64("m.number"), Owner: Addr(signer).String()}
	rt.Assume(msg.ValidateBasic() == nil)
	snap := we.MS.Snapshot()
	srv := wrkkeeper.NewMsgServerImpl(we.K)
	var err error
	var res *wrktypes.MsgPurchaseWrkChainStateStorageResponse
	panicked := rt.Catch(func() {
		res, err = srv.PurchaseWrkChainStateStorage(sdk.WrapSDKContext(we.Ctx), msg)
	})
	rt.Assert("C14.purchase-no-panic", !panicked)
	if panicked {
		return
	}
	onMain := msg.WrkchainId == pre.ID
	onForeign := msg.WrkchainId == pre.ID2
	rt.Assert("C13.purchase-only-owner", rt.Implies(err == nil, rt.Or(rt.And(onMain, signer == 0), rt.And(onForeign, signer == 1))))
	if err != nil {
		rt.Reach("purchase-rejected")
		rt.Assert("C08+C09+C13+C14.rejected-changes-nothing", we.MS.SameAs(snap))
		return
	}
	if !onMain {
		return
	}
	rt.Reach("purchase-ok")
	l, fl := we.K.GetWrkChainStorageLimit(we.Ctx, pre.ID)
	max := rt.IntOfU64(we.Params.MaxStorageLimit)
	newL := rt.IntAdd(rt.IntOfU64(pre.L), rt.IntOfU64(msg.Number))
	rt.Assert("C08.limit-raised-by-exactly-number", rt.And(fl, rt.IntEq(rt.IntOfU64(l.InStateLimit), newL)))
	rt.Assert("C08.limit-never-above-max", rt.IntLe(rt.IntOfU64(l.InStateLimit), max))
	rt.Assert("C08.limit-only-upward", l.InStateLimit > pre.L)
	rt.Assert("C08.remaining=max-limit", rt.IntEq(rt.IntOfU64(res.NumCanPurchase), rt.IntMax(sdk.ZeroInt(), rt.IntSub(max, rt.IntOfU64(l.InStateLimit)))))
	rt.Assert("C08.response", rt.And(res.WrkchainId == pre.ID, res.NumberPurchased == msg.Number))
	wc, _ := we.K.GetWrkChain(we.Ctx, pre.ID)
	rt.Assert("C09.purchase-leaves-chain", wc == pre.WC)
	rt.Assert("C07+C09+C18.foreign-untouched", wrkForeignUntouched(we, pre))
	for i := 0; i < pre.N; i++ {
		blk, found := we.K.GetWrkChainBlock(we.Ctx, pre.ID, pre.H[i])
		rt.Assert("C07+C18.old-record-unchanged", rt.And(found, blk == pre.B[i]))
	}
}

// H_C09_WrkRegister: one RegisterWrkChain step.
func H_C09_WrkRegister() {
	now := AnyBlockTime("now")
	we := NewWrkEnv(now)
	pre := setupWrk(we, 1)
	signer := rt.Choose(3)
	owner := Addr(signer).String()
	if rt.Choose(2) == 1 {
		owner = strings.ToUpper(owner) // bech32 also accepts the all-upper-case spelling of the same address
	}
	moniker := rt.Str("m.moniker")
	if rt.Choose(2) == 1 {
		moniker = " spaced moniker " // surrounding whitespace is accepted by ValidateBasic and must be stored as submitted
	}
	msg := &wrktypes.MsgRegisterWrkChain{Moniker: moniker, Name: rt.Str("m.name"), GenesisHash: rt.Str("m.genesis"),
		BaseType: rt.Str("m.type"), Owner: owner}
	rt.Assume(msg.ValidateBasic() == nil)
	rt.Assume(pre.Highest < 18446744073709551615) // stated bound: fewer than 2^64-1 registrations
	srv := wrkkeeper.NewMsgServerImpl(we.K)
	var err error
	var res *wrktypes.MsgRegisterWrkChainResponse
	panicked := rt.Catch(func() {
		res, err = srv.RegisterWrkChain(sdk.WrapSDKContext(we.Ctx), msg)
	})
	rt.Assert("C14.register-no-panic", !panicked)
	if panicked {
		return
	}
	rt.Assert("C09.valid-registration-succeeds", err == nil)
	if err != nil {
		return
	}
	rt.Reach("register-ok")
	rt.Assert("C09.id=next-unused", res.WrkchainId == pre.Highest)
	hi, _ := we.K.GetHighestWrkChainID(we.Ctx)
	rt.Assert("C09.highest-incremented", hi == pre.Highest+1)
	wc, found := we.K.GetWrkChain(we.Ctx, pre.Highest)
	want := wrktypes.WrkChain{WrkchainId: pre.Highest, Moniker: msg.Moniker, Name: msg.Name, Genesis: msg.GenesisHash, Type: msg.BaseType,
		Lastblock: 0, NumBlocks: 0, LowestHeight: 0, RegTime: uint64(now.Unix()), Owner: Addr(signer).String()}
	rt.Assert("C09+C20.stored-exactly-submitted-owner-canonical", rt.And(found, wc == want))
	l, fl := we.K.GetWrkChainStorageLimit(we.Ctx, pre.Highest)
	rt.Assert("C08.limit-starts-at-default", rt.And(fl, l.InStateLimit == we.Params.DefaultStorageLimit))
	// existing registrations untouched
	old, _ := we.K.GetWrkChain(we.Ctx, pre.ID)
	rt.Assert("C09.existing-untouched", old == pre.WC)
	ol, _ := we.K.GetWrkChainStorageLimit(we.Ctx, pre.ID)
	rt.Assert("C08.existing-limit-untouched", ol.InStateLimit == pre.L)
	rt.Assert("C07+C09+C18.foreign-untouched", wrkForeignUntouched(we, pre))
	for i := 0; i < pre.N; i++ {
		blk, f := we.K.GetWrkChainBlock(we.Ctx, pre.ID, pre.H[i])
		rt.Assert("C07+C18.old-record-unchanged", rt.And(f, blk == pre.B[i]))
	}
}

// H_C08_WrkStorageQuery: the remaining purchasable capacity reported by the gRPC WrkChainStorage
// query and by GetMaxPurchasableSlots is max(0, maximum − limit), for any limit/maximum (the
// maximum may have been lowered by governance below an existing limit).
func H_C08_WrkStorageQuery() {
	now := AnyBlockTime("now")
	we := NewWrkEnv(now)
	pre := setupWrk(we, 1)
	writes := we.MS.TotalWrites()
	max := rt.IntOfU64(we.Params.MaxStorageLimit)
	want := rt.IntMax(sdk.ZeroInt(), rt.IntSub(max, rt.IntOfU64(pre.L)))
	rt.Assert("C08.keeper-remaining=max(0,max-limit)", rt.IntEq(rt.IntOfU64(we.K.GetMaxPurchasableSlots(we.Ctx, pre.ID)), want))
	res, err := we.K.WrkChainStorage(sdk.WrapSDKContext(we.Ctx), &wrktypes.QueryWrkChainStorageRequest{WrkchainId: pre.ID})
	rt.Assert("C08.query-ok", err == nil)
	if err != nil {
		return
	}
	rt.Reach("query-ok")
	rt.Assert("C08.query-remaining=max(0,max-limit)", rt.IntEq(rt.IntOfU64(res.MaxPurchasable), want))
	rt.Assert("C08.query-counters", rt.And(rt.And(res.CurrentLimit == pre.L, res.CurrentUsed == uint64(pre.N)), rt.And(res.Max == we.Params.MaxStorageLimit, rt.And(res.Owner == pre.WC.Owner, res.WrkchainId == pre.ID))))
	rt.Assert("C20.query-writes-nothing", we.MS.TotalWrites() == writes)
}
