package h

import (
	"time"

	sdk "github.com/cosmos/cosmos-sdk/types"

	streamtypes "github.com/unification-com/mainchain/x/stream/types"
	"github.com/unification-com/mainchain/zz_verif/rt"
)

// H_C11_Amount: CalculateAmountToClaim pays exactly min(deposit, rate × whole seconds) before
// the deposit-zero time and the whole deposit at/after it.
func H_C11_Amount() {
	now, zero, last := rt.Time("now"), rt.Time("zero"), rt.Time("last")
	dep := rt.BigInt("deposit", 1, 200)
	rate := rt.I64("rate")
	rt.Assume(rate >= 1)
	rt.Assume(!last.After(now)) // INV-S: last outflow never in the future
	deposit := sdk.NewCoin("nund", dep)

	var claim, remain sdk.Coin
	panicked := rt.Catch(func() {
		claim, remain = streamtypes.CalculateAmountToClaim(now, zero, last, deposit, rate)
	})
	rt.Assert("no-panic", !panicked)
	if panicked {
		return
	}
	// oracle (exact integers)
	nowNs, lastNs := rt.TimeNanos(now), rt.TimeNanos(last)
	secs := rt.IntDivFloor(rt.IntSub(nowNs, lastNs), rt.IntOfI64(1000000000))
	due := rt.IntMul(secs, rt.IntOfI64(rate))
	expected := rt.IntMin(dep, due)
	if now.Before(zero) {
		rt.Reach("before-zero")
		rt.Assert("claim-exact-before-zero", rt.IntEq(claim.Amount, expected))
	} else {
		rt.Reach("at-or-after-zero")
		rt.Assert("claim-all-after-zero", rt.IntEq(claim.Amount, dep))
	}
	rt.Assert("remaining", rt.IntEq(remain.Amount, rt.IntSub(dep, claim.Amount)))
	rt.Assert("denoms", rt.And(claim.Denom == "nund", remain.Denom == "nund"))
}

// H_C11_SecondsKernel isolates the seconds computation: rate 1, a deposit that never binds and a
// deposit-zero time in the far future, so the claim equals the whole seconds elapsed. Any
// rounding on the way from the time difference to whole seconds shows up here.
func H_C11_SecondsKernel() {
	now, last := rt.Time("now"), rt.Time("last")
	rt.Assume(!last.After(now))
	rt.Assume(now.Unix() < 253402300799)
	zero := time.Unix(253402300799, 0).UTC()
	dep := sdk.NewIntFromUint64(1 << 62).MulRaw(1 << 20)
	claim, _ := streamtypes.CalculateAmountToClaim(now, zero, last, sdk.NewCoin("nund", dep), 1)
	secs := rt.IntDivFloor(rt.IntSub(rt.TimeNanos(now), rt.TimeNanos(last)), rt.IntOfI64(1000000000))
	rt.Assert("whole-seconds", rt.IntEq(claim.Amount, secs))
}
