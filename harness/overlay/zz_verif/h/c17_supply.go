package h

import (
	sdk "github.com/cosmos/cosmos-sdk/types"
	"github.com/cosmos/cosmos-sdk/types/query"

	enttypes "github.com/unification-com/mainchain/x/enterprise/types"
	"github.com/unification-com/mainchain/zz_verif/rt"
)

// H_C17_Supply: the enterprise supply queries over an INV-E state: bank supply of nund = total
// locked (escrow) + symbolic circulating amount, plus one or two other denominations.
func H_C17_Supply() {
	now := AnyBlockTime("now")
	ee := NewEntEnvOn(NewEnv(now, false), 1)
	k, ctx := ee.K, ee.Ctx
	books := setupBooksOpt(ee, true)
	circ := rt.BigInt("circulating", 0, 128)
	ee.Bank.Fund(Addr(0), "nund", circ)
	nOther := rt.Choose(3)
	var other [2]sdk.Int
	names := [2]string{"ibc/27394FB0AA", "zzz"} // an IBC voucher (upper-case hash, sorts before nund) and one sorting after
	for i := 0; i < nOther; i++ {
		other[i] = rt.BigInt("supply."+names[i], 1, 128)
		ee.Bank.Fund(Addr(1), names[i], other[i])
	}
	locked := books.OtherLocked.Add(books.Locked[0]).Add(books.Locked[1])
	total := locked.Add(circ)
	writes := ee.MS.TotalWrites()

	// SupplyOf, every denomination
	so, err := k.SupplyOf(sdk.WrapSDKContext(ctx), &enttypes.QuerySupplyOfRequest{Denom: "nund"})
	rt.Assert("C17.supplyof-ok", err == nil)
	if err == nil {
		rt.Assert("C17.supplyof-native=supply-locked", rt.And(so.Amount.Denom == "nund", rt.IntEq(so.Amount.Amount, circ)))
	}
	for i := 0; i < nOther; i++ {
		o, oerr := k.SupplyOf(sdk.WrapSDKContext(ctx), &enttypes.QuerySupplyOfRequest{Denom: names[i]})
		rt.Assert("C17.supplyof-other=bank-supply", rt.And(oerr == nil, rt.And(o.Amount.Denom == names[i], rt.IntEq(o.Amount.Amount, other[i]))))
	}
	ov, _ := k.SupplyOfOverwrite(sdk.WrapSDKContext(ctx), &enttypes.QuerySupplyOfRequest{Denom: "nund"})
	rt.Assert("C17.supplyof-overwrite-same", rt.IntEq(ov.Amount.Amount, circ))

	// TotalSupply listing: every denomination with non-zero bank supply exactly once
	ts, terr := k.TotalSupply(sdk.WrapSDKContext(ctx), &enttypes.QueryTotalSupplyRequest{Pagination: &query.PageRequest{}})
	rt.Assert("C17.totalsupply-ok", terr == nil)
	if terr == nil {
		rt.Reach("totalsupply-ok")
		cntN, cnt := 0, [2]int{}
		for _, c := range ts.Supply {
			if c.Denom == "nund" {
				cntN++
				rt.Assert("C17.totalsupply-native=supply-locked", rt.IntEq(c.Amount, circ))
			}
			for i := 0; i < nOther; i++ {
				if c.Denom == names[i] {
					cnt[i]++
					rt.Assert("C17.totalsupply-other=bank-supply", rt.IntEq(c.Amount, other[i]))
				}
			}
		}
		if rt.IntLt(sdk.ZeroInt(), total) {
			rt.Assert("C17.totalsupply-native-once", cntN == 1)
		}
		for i := 0; i < nOther; i++ {
			rt.Assert("C17.totalsupply-each-denom-once", cnt[i] == 1)
		}
		rt.Assert("C17.totalsupply-nothing-else", len(ts.Supply) == cntN+cnt[0]+cnt[1])
	}

	// locked + unlocked = total, none negative
	tl, _ := k.TotalLocked(sdk.WrapSDKContext(ctx), &enttypes.QueryTotalLockedRequest{})
	tu, uerr := k.TotalUnlocked(sdk.WrapSDKContext(ctx), &enttypes.QueryTotalUnlockedRequest{})
	rt.Assert("C17.unlocked-ok", uerr == nil)
	if uerr == nil {
		rt.Assert("C17.locked+unlocked=total", rt.And(rt.IntEq(tl.Amount.Amount, locked), rt.IntEq(tu.Amount.Amount, circ)))
		rt.Assert("C17.none-negative", rt.And(rt.IntLe(sdk.ZeroInt(), tl.Amount.Amount), rt.IntLe(sdk.ZeroInt(), tu.Amount.Amount)))
	}
	// EnterpriseSupply (uint64 fields): stated bound total < 2^64
	if rt.IntLt(total, sdk.NewIntFromUint64(18446744073709551615)) {
		es, eerr := k.EnterpriseSupply(sdk.WrapSDKContext(ctx), &enttypes.QueryEnterpriseSupplyRequest{})
		rt.Assert("C17.enterprise-supply-ok", eerr == nil)
		if eerr == nil {
			rt.Reach("enterprise-supply-ok")
			rt.Assert("C17.enterprise-supply-figures", rt.And(rt.And(es.Supply.Denom == "nund", rt.IntEq(rt.IntOfU64(es.Supply.Total), total)),
				rt.And(rt.IntEq(rt.IntOfU64(es.Supply.Locked), locked), rt.IntEq(rt.IntOfU64(es.Supply.Amount), circ))))
		}
	}
	rt.Assert("C20.supply-queries-write-nothing", ee.MS.TotalWrites() == writes)
}
