package h

import (
	"bytes"
	"time"

	sdk "github.com/cosmos/cosmos-sdk/types"

	undtypes "github.com/unification-com/mainchain/types"
	enttypes "github.com/unification-com/mainchain/x/enterprise/types"
	streamtypes "github.com/unification-com/mainchain/x/stream/types"
	wrktypes "github.com/unification-com/mainchain/x/wrkchain/types"
	"github.com/unification-com/mainchain/zz_verif/rt"
)

// Translator self-tests: the repository's OWN unit-test vectors (x/stream/types/utils_test.go,
// x/*/types/keys_test.go, params tests) pushed through the encoding. The expected values are the
// ones the repository's tests assert on the natively compiled code (the suite passes), so an
// assertion that is not decided "holds" here means the engine's model of the arithmetic, of
// math.Int/LegacyDec/time.Time or of the byte-level key code differs from Go — it would then be
// reported as a counterexample that does not replay (exit 2), never as a pass. The block time of
// the claim vectors, fixed by time.Now() in the repository's test, is symbolic here.

type durVec struct {
	amt  uint64
	rate int64
	want int64
}

// H_C11_SelfTestVectors: TestCalculateDuration, TestCalculateAmountToClaim,
// TestCalculateFlowRateForCoin.
func H_C11_SelfTestVectors() {
	for _, v := range []durVec{{1000, 1000, 1}, {1000, 16, 62}, {23423423, 8, 2927927}, {23467645081223423, 4464924863, 5256000},
		{23467645081223423, 744154143, 31536000}, {77000000000, 29299, 2628076}, {46000000000, 17503, 2628120},
		{459000000000, 174657, 2628008}, {4584000000000, 1744292, 2628000}, {0, 123456789, 0}, {24233454353, 0, 0}, {0, 0, 0}} {
		got := streamtypes.CalculateDuration(sdk.NewCoin("testdenom", sdk.NewIntFromUint64(v.amt)), v.rate)
		rt.Assert("INV.selftest.CalculateDuration=repo-test-vector", got == v.want)
	}
	// boundary vector of our own: a quotient whose fractional part is within 0.5e-18 of the next
	// integer (only reachable with 18-decimal tokens) must still be floored
	edge, _ := sdk.NewIntFromString("399999999999999999999")
	rt.Assert("INV.selftest.CalculateDuration-floors-at-the-18-decimal-boundary", streamtypes.CalculateDuration(sdk.NewCoin("testdenom", edge), 4000000000000000000) == 99)
	now := AnyBlockTime("now")
	type claimVec struct {
		zeroAfter  int64 // deposit-zero time = now + zeroAfter seconds
		lastBefore int64 // last outflow = Unix(now.Unix() - lastBefore, 0); -1: last = now
		deposit    uint64
		rate       int64
		claim      uint64
		remain     uint64
	}
	for _, v := range []claimVec{{0, -1, 1000, 1000, 1000, 0}, {1000, 1000, 2000, 1, 1000, 1000}, {1, 999, 1000, 1, 999, 1}, {940, 60, 1000, 1, 60, 940},
		{0, 234276, 1494667526000, 6379943, 1494667526000, 0}, {8626, 23427, 204496312979, 6379943, 149462924661, 55033388318},
		{1, 2627999, 4584000003123, 1744292, 4583997631708, 2371415}, {10, 2627999, 450000000000, 1744292, 450000000000, 0}} {
		zero := now.Add(time.Second * time.Duration(v.zeroAfter))
		last := now
		if v.lastBefore >= 0 {
			last = time.Unix(now.Unix()-v.lastBefore, 0)
		}
		claim, remain := streamtypes.CalculateAmountToClaim(now, zero, last, sdk.NewCoin("testdenom", sdk.NewIntFromUint64(v.deposit)), v.rate)
		rt.Assert("INV.selftest.CalculateAmountToClaim=repo-test-vector", rt.And(rt.IntEq(claim.Amount, sdk.NewIntFromUint64(v.claim)), rt.IntEq(remain.Amount, sdk.NewIntFromUint64(v.remain))))
	}
	type flowVec struct {
		amt      uint64
		period   streamtypes.StreamPeriod
		n        uint64
		wantDur  uint64
		wantRate int64
	}
	for _, v := range []flowVec{{1000, streamtypes.StreamPeriodSecond, 1, 1, 1000}, {1000, streamtypes.StreamPeriodMinute, 1, 60, 16},
		{23423423, streamtypes.StreamPeriodMonth, 1, 2628000, 8}, {23467645081223423, streamtypes.StreamPeriodMonth, 2, 5256000, 4464924863},
		{23467645081223423, streamtypes.StreamPeriodYear, 1, 31536000, 744154143}, {77000000000, streamtypes.StreamPeriodMonth, 1, 2628000, 29299},
		{4584000000000, streamtypes.StreamPeriodMonth, 1, 2628000, 1744292}, {0, streamtypes.StreamPeriodMonth, 1, 2628000, 0}, {2332323424, streamtypes.StreamPeriodMonth, 0, 0, 0}} {
		dur, _, rate := streamtypes.CalculateFlowRateForCoin(sdk.NewCoin("testdenom", sdk.NewIntFromUint64(v.amt)), v.period, v.n)
		rt.Assert("INV.selftest.CalculateFlowRateForCoin=repo-test-vector", dur == v.wantDur && rate == v.wantRate)
	}
	rt.Reach("end")
}

// H_C12_SelfTestVectors: TestCalculateValidatorFee.
func H_C12_SelfTestVectors() {
	type feeVec struct {
		perc              int64
		amt, final, valFee uint64
	}
	for _, v := range []feeVec{{0, 1000, 1000, 0}, {1, 1000, 990, 10}, {10, 1000, 900, 100}, {5, 1000, 950, 50}, {24, 1000, 760, 240}, {99, 1000, 10, 990},
		{100, 1000, 0, 1000}, {1, 8723642874687, 8636406445941, 87236428746}, {24, 912742861395, 693684574661, 219058286734}, {24, 0, 0, 0}, {0, 0, 0, 0}} {
		amt := sdk.NewCoin("testdenom", sdk.NewIntFromUint64(v.amt))
		final, fee := streamtypes.CalculateValidatorFee(sdk.NewDecWithPrec(v.perc, 2), amt)
		rt.Assert("INV.selftest.CalculateValidatorFee=repo-test-vector", rt.And(rt.IntEq(final.Amount, sdk.NewIntFromUint64(v.final)), rt.IntEq(fee.Amount, sdk.NewIntFromUint64(v.valFee))))
		rt.Assert("INV.selftest.CalculateValidatorFee-total", rt.IntEq(final.Amount.Add(fee.Amount), amt.Amount))
	}
	rt.Reach("end")
}

// H_C18_SelfTestVectors: the key tests (fixed ids of the repository's tests; the enterprise queue
// round trip, which the repository's test walks for 1..999999, for any 64-bit id).
func H_C18_SelfTestVectors() {
	key := wrktypes.WrkChainBlockKey(24, 12345)
	rt.Assert("INV.selftest.WrkChainBlockKey", len(key) == 17 && key[0] == wrktypes.RecordedWrkChainBlockHashPrefix[0] &&
		wrktypes.GetWrkChainIDFromBytes(key[1:9]) == 24 && wrktypes.GetWrkChainIDFromBytes(key[9:]) == 12345)
	k2 := wrktypes.WrkChainKey(24)
	rt.Assert("INV.selftest.WrkChainKey", len(k2) == 9 && k2[0] == wrktypes.RegisteredWrkChainPrefix[0] && wrktypes.GetWrkChainIDFromBytes(k2[1:]) == 24 && bytes.Equal(k2[1:], wrktypes.GetWrkChainIDBytes(24)))
	k3 := wrktypes.WrkChainStorageLimitKey(24)
	rt.Assert("INV.selftest.WrkChainStorageLimitKey", len(k3) == 9 && k3[0] == wrktypes.WrkChainStorageLimitPrefix[0] && wrktypes.GetWrkChainIDFromBytes(k3[1:]) == 24)
	id := rt.U64("po.id")
	rt.Assert("INV.selftest.RaisedQueueStoreKey-roundtrip", enttypes.SplitRaisedQueueKey(enttypes.RaisedQueueStoreKey(id)) == id)
	rt.Assert("INV.selftest.AcceptedQueueStoreKey-roundtrip", enttypes.SplitAcceptedQueueKey(enttypes.AcceptedQueueStoreKey(id)) == id)
	recv, _ := sdk.AccAddressFromBech32(Addr(0).String())
	send, _ := sdk.AccAddressFromBech32(Addr(1).String())
	sk := streamtypes.GetStreamKey(recv, send)
	r, s := streamtypes.AddressesFromStreamKey(sk)
	rt.Assert("INV.selftest.AddressesFromStreamKey", len(sk) == 1+21+21 && r.Equals(recv) && s.Equals(send))
	rt.Reach("end")
}

// H_C19_SelfTestVectors: concrete conversions (the probe inputs that exposed the float defect,
// the amounts of the seeded-change demonstrations) through the encoding.
func H_C19_SelfTestVectors() {
	type cv struct{ amt, from, to, want string }
	for _, v := range []cv{{"0.000000015", "fund", "nund", "15nund"}, {"120000000.000000001", "fund", "nund", "120000000000000001nund"},
		{"24", "fund", "nund", "24000000000nund"}, {"9007199.254740993", "fund", "nund", "9007199254740993nund"},
		{"9007199254740993", "nund", "fund", "9007199.254740993fund"}, {"15", "nund", "fund", "0.000000015fund"},
		{"-15", "nund", "fund", "-0.000000015fund"}, {"123456789123456789", "nund", "fund", "123456789.123456789fund"}, {"7", "fund", "fund", "7fund"}} {
		got, err := undtypes.ConvertUndDenomination(v.amt, v.from, v.to)
		rt.Assert("INV.selftest.ConvertUndDenomination=known-vector", err == nil && got == v.want)
	}
	rt.Reach("end")
}
