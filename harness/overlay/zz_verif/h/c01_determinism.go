package h

import (
	sdk "github.com/cosmos/cosmos-sdk/types"
	authtypes "github.com/cosmos/cosmos-sdk/x/auth/types"

	"github.com/unification-com/mainchain/x/enterprise"
	beaconkeeper "github.com/unification-com/mainchain/x/beacon/keeper"
	beacontypes "github.com/unification-com/mainchain/x/beacon/types"
	entkeeper "github.com/unification-com/mainchain/x/enterprise/keeper"
	enttypes "github.com/unification-com/mainchain/x/enterprise/types"
	streamkeeper "github.com/unification-com/mainchain/x/stream/keeper"
	streamtypes "github.com/unification-com/mainchain/x/stream/types"
	wrkkeeper "github.com/unification-com/mainchain/x/wrkchain/keeper"
	wrktypes "github.com/unification-com/mainchain/x/wrkchain/types"
	"github.com/unification-com/mainchain/zz_verif/model"
	"github.com/unification-com/mainchain/zz_verif/rt"
)

// C01 is decided as non-interference (2-safety by self-composition): the same entry point is run
// twice from the SAME symbolic pre-state with the SAME symbolic input, on two independent copies
// of the stores and of the bank ledger ("two nodes"). What differs between the runs is exactly
// what differs between nodes: every time.Now() call returns a fresh arbitrary instant, every
// `range` over a map takes an arbitrary order (the engine forks over the orders independently in
// both runs). The runs must agree on: error / result code, response, every store (key and decoded
// value), the bank ledger, and the number of store reads and writes (the inputs of gas).

func forkEnv(e *Env) *Env { return forkEnvMode(e, false) }

func forkEnvMode(e *Env, checkTx bool) *Env {
	ms := e.MS.Snapshot()
	return &Env{MS: ms, Bank: e.Bank.Clone(), Now: e.Now, Ctx: rt.NewContext(ms, e.Now, 10, checkTx)}
}

func sameNode(a, b *Env) bool {
	return rt.And(rt.And(a.MS.SameAs(b.MS), a.Bank.SameAs(b.Bank)),
		rt.And(a.MS.TotalWrites() == b.MS.TotalWrites(), a.MS.TotalReads() == b.MS.TotalReads()))
}

func assertSame(what string, a, b *Env, errA, errB error, panA, panB bool, respEq bool) {
	rt.Assert("C01."+what+"-same-outcome", rt.And(panA == panB, rt.ErrCode(errA) == rt.ErrCode(errB)))
	rt.Assert("C01."+what+"-same-response", respEq)
	rt.Assert("C01."+what+"-same-state-and-gas-inputs", sameNode(a, b))
}

// H_C01_Wrkchain: record / purchase / register on two nodes.
func H_C01_Wrkchain() {
	now := AnyBlockTime("now")
	we := NewWrkEnv(now)
	pre := setupWrk(we, 1)
	a, b := forkEnv(we.Env), forkEnv(we.Env)
	ka, kb := wrkkeeper.NewKeeper(we.Key, rt.Codec(), Authority()), wrkkeeper.NewKeeper(we.Key, rt.Codec(), Authority())
	sa, sb := wrkkeeper.NewMsgServerImpl(ka), wrkkeeper.NewMsgServerImpl(kb)
	signer := Addr(rt.Choose(2)).String()
	var errA, errB error
	var panA, panB bool
	respEq := true
	switch rt.Choose(3) {
	case 0:
		msg := &wrktypes.MsgRecordWrkChainBlock{WrkchainId: rt.U64("m.id"), Height: rt.U64("m.height"), BlockHash: rt.Str("m.bh"), ParentHash: rt.Str("m.ph"), Owner: signer}
		rt.Assume(msg.ValidateBasic() == nil)
		var ra, rb *wrktypes.MsgRecordWrkChainBlockResponse
		panA = rt.Catch(func() { ra, errA = sa.RecordWrkChainBlock(sdk.WrapSDKContext(a.Ctx), msg) })
		rt.EnvBarrier()
		panB = rt.Catch(func() { rb, errB = sb.RecordWrkChainBlock(sdk.WrapSDKContext(b.Ctx), msg) })
		if ra != nil && rb != nil {
			respEq = *ra == *rb
		}
	case 1:
		msg := &wrktypes.MsgPurchaseWrkChainStateStorage{WrkchainId: rt.U64("m.id"), Number: rt.U64("m.number"), Owner: signer}
		rt.Assume(msg.ValidateBasic() == nil)
		var ra, rb *wrktypes.MsgPurchaseWrkChainStateStorageResponse
		panA = rt.Catch(func() { ra, errA = sa.PurchaseWrkChainStateStorage(sdk.WrapSDKContext(a.Ctx), msg) })
		rt.EnvBarrier()
		panB = rt.Catch(func() { rb, errB = sb.PurchaseWrkChainStateStorage(sdk.WrapSDKContext(b.Ctx), msg) })
		if ra != nil && rb != nil {
			respEq = *ra == *rb
		}
	default:
		msg := &wrktypes.MsgRegisterWrkChain{Moniker: rt.Str("m.moniker"), Name: rt.Str("m.name"), GenesisHash: rt.Str("m.genesis"), BaseType: rt.Str("m.type"), Owner: signer}
		rt.Assume(msg.ValidateBasic() == nil)
		var ra, rb *wrktypes.MsgRegisterWrkChainResponse
		panA = rt.Catch(func() { ra, errA = sa.RegisterWrkChain(sdk.WrapSDKContext(a.Ctx), msg) })
		rt.EnvBarrier()
		panB = rt.Catch(func() { rb, errB = sb.RegisterWrkChain(sdk.WrapSDKContext(b.Ctx), msg) })
		if ra != nil && rb != nil {
			respEq = *ra == *rb
		}
	}
	assertSame("wrkchain", a, b, errA, errB, panA, panB, respEq)
	rt.Reach("end")
	_ = pre
}

// H_C01_Beacon: record / purchase / register on two nodes.
func H_C01_Beacon() {
	now := AnyBlockTime("now")
	be := NewBeaconEnv(now)
	pre := setupBeacon(be, 1)
	a, b := forkEnv(be.Env), forkEnv(be.Env)
	ka, kb := beaconkeeper.NewKeeper(be.Key, rt.Codec(), Authority()), beaconkeeper.NewKeeper(be.Key, rt.Codec(), Authority())
	sa, sb := beaconkeeper.NewMsgServerImpl(ka), beaconkeeper.NewMsgServerImpl(kb)
	signer := Addr(rt.Choose(2)).String()
	var errA, errB error
	var panA, panB bool
	respEq := true
	switch rt.Choose(3) {
	case 0:
		msg := &beacontypes.MsgRecordBeaconTimestamp{BeaconId: rt.U64("m.id"), Hash: rt.Str("m.hash"), SubmitTime: rt.U64("m.subtime"), Owner: signer}
		rt.Assume(msg.ValidateBasic() == nil) // baseapp runs ValidateBasic before every message server
		var ra, rb *beacontypes.MsgRecordBeaconTimestampResponse
		panA = rt.Catch(func() { ra, errA = sa.RecordBeaconTimestamp(sdk.WrapSDKContext(a.Ctx), msg) })
		rt.EnvBarrier()
		panB = rt.Catch(func() { rb, errB = sb.RecordBeaconTimestamp(sdk.WrapSDKContext(b.Ctx), msg) })
		if ra != nil && rb != nil {
			respEq = *ra == *rb
		}
	case 1:
		msg := &beacontypes.MsgPurchaseBeaconStateStorage{BeaconId: rt.U64("m.id"), Number: rt.U64("m.number"), Owner: signer}
		rt.Assume(msg.ValidateBasic() == nil)
		var ra, rb *beacontypes.MsgPurchaseBeaconStateStorageResponse
		panA = rt.Catch(func() { ra, errA = sa.PurchaseBeaconStateStorage(sdk.WrapSDKContext(a.Ctx), msg) })
		rt.EnvBarrier()
		panB = rt.Catch(func() { rb, errB = sb.PurchaseBeaconStateStorage(sdk.WrapSDKContext(b.Ctx), msg) })
		if ra != nil && rb != nil {
			respEq = *ra == *rb
		}
	default:
		msg := &beacontypes.MsgRegisterBeacon{Moniker: rt.Str("m.moniker"), Name: rt.Str("m.name"), Owner: signer}
		rt.Assume(msg.ValidateBasic() == nil)
		var ra, rb *beacontypes.MsgRegisterBeaconResponse
		panA = rt.Catch(func() { ra, errA = sa.RegisterBeacon(sdk.WrapSDKContext(a.Ctx), msg) })
		rt.EnvBarrier()
		panB = rt.Catch(func() { rb, errB = sb.RegisterBeacon(sdk.WrapSDKContext(b.Ctx), msg) })
		if ra != nil && rb != nil {
			respEq = *ra == *rb
		}
	}
	assertSame("beacon", a, b, errA, errB, panA, panB, respEq)
	rt.Reach("end")
	_ = pre
}

// H_C01_BeginBlock: the enterprise begin blocker (the only block hook of the custom modules; it
// reads the wall clock for telemetry) on two nodes.
func H_C01_BeginBlock() {
	now := AnyBlockTime("now")
	ee := NewEntEnvOn(NewEnv(now, false), 0)
	k, ctx := ee.K, ee.Ctx
	nowSec := uint64(now.Unix())
	k.SetHighestPurchaseOrderID(ctx, 10)
	setupBooksOpt(ee, true)
	ee.Bank.AddBase(Addr(0))
	ee.Bank.AddBase(Addr(1))
	if rt.Choose(2) == 1 {
		acc := anyOrder("a0", 3, Addr(rt.Choose(2)), enttypes.StatusAccepted, 0, nowSec)
		_ = k.SetPurchaseOrder(ctx, acc)
		k.AddPoToAcceptedQueue(ctx, 3)
	}
	nr := rt.Choose(3)
	for i := 0; i < nr; i++ {
		r := anyOrder("r"+string(rune('0'+i)), uint64(5+i), Addr(1), enttypes.StatusRaised, 1, nowSec)
		_ = k.SetPurchaseOrder(ctx, r)
		k.AddPoToRaisedQueue(ctx, uint64(5+i))
	}
	a, b := forkEnv(ee.Env), forkEnv(ee.Env)
	ka := entkeeper.NewKeeper(ee.Key, a.Bank, a.Bank, rt.Codec(), Authority())
	kb := entkeeper.NewKeeper(ee.Key, b.Bank, b.Bank, rt.Codec(), Authority())
	panA := rt.Catch(func() { enterprise.BeginBlocker(a.Ctx, ka) })
	rt.EnvBarrier()
	panB := rt.Catch(func() { enterprise.BeginBlocker(b.Ctx, kb) })
	assertSame("beginblock", a, b, nil, nil, panA, panB, true)
	rt.Reach("end")
}

// H_C01_Enterprise: raise / decide / whitelist on two nodes.
func H_C01_Enterprise() {
	now := AnyBlockTime("now")
	ee := NewEntEnvOn(NewEnv(now, false), 0)
	k, ctx := ee.K, ee.Ctx
	nowSec := uint64(now.Unix())
	k.SetHighestPurchaseOrderID(ctx, 10)
	_ = k.AddAddressToWhitelist(ctx, Addr(0))
	po := anyOrder("po", 4, Addr(0), enttypes.StatusRaised, 1, nowSec)
	_ = k.SetPurchaseOrder(ctx, po)
	k.AddPoToRaisedQueue(ctx, 4)
	a, b := forkEnv(ee.Env), forkEnv(ee.Env)
	sa := entkeeper.NewMsgServerImpl(entkeeper.NewKeeper(ee.Key, a.Bank, a.Bank, rt.Codec(), Authority()))
	sb := entkeeper.NewMsgServerImpl(entkeeper.NewKeeper(ee.Key, b.Bank, b.Bank, rt.Codec(), Authority()))
	var errA, errB error
	var panA, panB bool
	respEq := true
	switch rt.Choose(3) {
	case 0:
		msg := &enttypes.MsgUndPurchaseOrder{Purchaser: Addr(rt.Choose(2)).String(), Amount: sdk.NewCoin("nund", rt.BigInt("m.amount", 0, 128))}
		rt.Assume(msg.ValidateBasic() == nil)
		var ra, rb *enttypes.MsgUndPurchaseOrderResponse
		panA = rt.Catch(func() { ra, errA = sa.UndPurchaseOrder(sdk.WrapSDKContext(a.Ctx), msg) })
		rt.EnvBarrier()
		panB = rt.Catch(func() { rb, errB = sb.UndPurchaseOrder(sdk.WrapSDKContext(b.Ctx), msg) })
		if ra != nil && rb != nil {
			respEq = *ra == *rb
		}
	case 1:
		dec := enttypes.StatusAccepted
		if rt.Choose(2) == 1 {
			dec = enttypes.StatusRejected
		}
		msg := &enttypes.MsgProcessUndPurchaseOrder{PurchaseOrderId: rt.U64("m.id"), Decision: dec, Signer: Signer(rt.Choose(3)).String()}
		rt.Assume(msg.ValidateBasic() == nil)
		panA = rt.Catch(func() { _, errA = sa.ProcessUndPurchaseOrder(sdk.WrapSDKContext(a.Ctx), msg) })
		rt.EnvBarrier()
		panB = rt.Catch(func() { _, errB = sb.ProcessUndPurchaseOrder(sdk.WrapSDKContext(b.Ctx), msg) })
	default:
		act := enttypes.WhitelistActionAdd
		if rt.Choose(2) == 1 {
			act = enttypes.WhitelistActionRemove
		}
		msg := &enttypes.MsgWhitelistAddress{Address: Addr(rt.Choose(2)).String(), Signer: Signer(rt.Choose(3)).String(), Action: act}
		rt.Assume(msg.ValidateBasic() == nil)
		panA = rt.Catch(func() { _, errA = sa.WhitelistAddress(sdk.WrapSDKContext(a.Ctx), msg) })
		rt.EnvBarrier()
		panB = rt.Catch(func() { _, errB = sb.WhitelistAddress(sdk.WrapSDKContext(b.Ctx), msg) })
	}
	assertSame("enterprise", a, b, errA, errB, panA, panB, respEq)
	rt.Reach("end")
}

// H_C01_Stream: the five stream operations on two nodes.
func H_C01_Stream() {
	now := AnyBlockTime("now")
	se := NewStreamEnv(now)
	// the fee rate is fixed at 1% here: the exact split is the subject of C10; what is compared is
	// the two runs with each other
	_ = se.K.SetParams(se.Ctx, streamtypes.Params{ValidatorFee: sdk.NewDecWithPrec(1, 2)})
	pre := setupStream(se, "nund")
	se.Bank.Fund(pre.Sender, "nund", rt.BigInt("senderBalance", 0, 201))
	a, b := forkEnv(se.Env), forkEnv(se.Env)
	sa := streamkeeper.NewMsgServerImpl(streamkeeper.NewKeeper(se.Key, a.Bank, a.Bank, rt.Codec(), authtypes.FeeCollectorName, Authority()))
	sb := streamkeeper.NewMsgServerImpl(streamkeeper.NewKeeper(se.Key, b.Bank, b.Bank, rt.Codec(), authtypes.FeeCollectorName, Authority()))
	R, S := pre.Receiver.String(), pre.Sender.String()
	var errA, errB error
	var panA, panB bool
	respEq := true
	switch rt.Choose(4) {
	case 0:
		msg := &streamtypes.MsgClaimStream{Receiver: R, Sender: S}
		var ra, rb *streamtypes.MsgClaimStreamResponse
		panA = rt.Catch(func() { ra, errA = sa.ClaimStream(sdk.WrapSDKContext(a.Ctx), msg) })
		rt.EnvBarrier()
		panB = rt.Catch(func() { rb, errB = sb.ClaimStream(sdk.WrapSDKContext(b.Ctx), msg) })
		if ra != nil && rb != nil {
			respEq = rt.And(rt.IntEq(ra.TotalClaimed.Amount, rb.TotalClaimed.Amount), rt.And(rt.IntEq(ra.ValidatorFee.Amount, rb.ValidatorFee.Amount), rt.IntEq(ra.RemainingDeposit.Amount, rb.RemainingDeposit.Amount)))
		}
	case 1:
		msg := &streamtypes.MsgTopUpDeposit{Receiver: R, Sender: S, Deposit: sdk.NewCoin("nund", rt.BigInt("topup", 1, 200))}
		var ra, rb *streamtypes.MsgTopUpDepositResponse
		panA = rt.Catch(func() { ra, errA = sa.TopUpDeposit(sdk.WrapSDKContext(a.Ctx), msg) })
		rt.EnvBarrier()
		panB = rt.Catch(func() { rb, errB = sb.TopUpDeposit(sdk.WrapSDKContext(b.Ctx), msg) })
		if ra != nil && rb != nil {
			respEq = rt.And(ra.DepositZeroTime.Equal(rb.DepositZeroTime), rt.IntEq(ra.CurrentDeposit.Amount, rb.CurrentDeposit.Amount))
		}
	case 2:
		msg := &streamtypes.MsgUpdateFlowRate{Receiver: R, Sender: S, FlowRate: rt.I64("newRate")}
		rt.Assume(msg.ValidateBasic() == nil)
		panA = rt.Catch(func() { _, errA = sa.UpdateFlowRate(sdk.WrapSDKContext(a.Ctx), msg) })
		rt.EnvBarrier()
		panB = rt.Catch(func() { _, errB = sb.UpdateFlowRate(sdk.WrapSDKContext(b.Ctx), msg) })
	default:
		msg := &streamtypes.MsgCancelStream{Receiver: R, Sender: S}
		panA = rt.Catch(func() { _, errA = sa.CancelStream(sdk.WrapSDKContext(a.Ctx), msg) })
		rt.EnvBarrier()
		panB = rt.Catch(func() { _, errB = sb.CancelStream(sdk.WrapSDKContext(b.Ctx), msg) })
	}
	assertSame("stream", a, b, errA, errB, panA, panB, respEq)
	rt.Reach("end")
}

// H_C01_Ante: the custom ante decorators (they iterate over Go maps) on two nodes: same
// admission decision and result code, same state.
func H_C01_Ante() {
	now := AnyBlockTime("now")
	ae := NewAnteEnv(now, true)
	setupBooksOpt(ae.E, false)
	ae.Bank.AddBase(Addr(0))
	ae.Bank.Fund(Addr(0), "nund", rt.BigInt("payer.liquid", 0, 128))
	// two purchases for two different registrations of one module, so that the decorator's
	// per-registration map has two entries (iterated in map order)
	owner := Addr(0).String()
	var msgs []sdk.Msg
	if rt.Choose(2) == 0 {
		wid2 := rt.U64("w2.id")
		rt.Assume(rt.And(wid2 >= 1, wid2 != ae.WID))
		_ = ae.W.K.SetWrkChain(ae.Ctx, wrktypes.WrkChain{WrkchainId: wid2, Moniker: "w2", Owner: owner})
		_ = ae.W.K.SetWrkChainStorageLimit(ae.Ctx, wid2, rt.U64("w2.limit"))
		msgs = []sdk.Msg{
			&wrktypes.MsgPurchaseWrkChainStateStorage{WrkchainId: ae.WID, Number: rt.U64("m0.slots"), Owner: owner},
			&wrktypes.MsgPurchaseWrkChainStateStorage{WrkchainId: wid2, Number: rt.U64("m1.slots"), Owner: owner},
		}
	} else {
		bid2 := rt.U64("b2.id")
		rt.Assume(rt.And(bid2 >= 1, bid2 != ae.BID))
		_ = ae.B.K.SetBeacon(ae.Ctx, beacontypes.Beacon{BeaconId: bid2, Moniker: "b2", Owner: owner})
		_ = ae.B.K.SetBeaconStorageLimit(ae.Ctx, bid2, rt.U64("b2.limit"))
		msgs = []sdk.Msg{
			&beacontypes.MsgPurchaseBeaconStateStorage{BeaconId: ae.BID, Number: rt.U64("m0.slots"), Owner: owner},
			&beacontypes.MsgPurchaseBeaconStateStorage{BeaconId: bid2, Number: rt.U64("m1.slots"), Owner: owner},
		}
	}
	fee := sdk.Coins{sdk.NewCoin("nund", rt.BigInt("fee.nund", 1, 128))}
	tx := &model.Tx{Msgs: msgs, Fee: fee, Payer: Addr(0), Gas: 200000}
	a, b := forkEnvMode(ae.Env, true), forkEnvMode(ae.Env, true)
	ca, cb := anteChainOn(ae, a), anteChainOn(ae, b)
	var errA, errB error
	panA := rt.Catch(func() { _, errA = ca(a.Ctx, tx, false) })
	rt.EnvBarrier()
	panB := rt.Catch(func() { _, errB = cb(b.Ctx, tx, false) })
	assertSame("ante", a, b, errA, errB, panA, panB, true)
	rt.Reach("end")
}

// H_C01_AnteRollback: the decorator chain is a long-lived object shared by CheckTx, simulation and
// DeliverTx. Node A's chain first sees a transaction that it REJECTS (mempool check on a branch
// that is thrown away), then both nodes deliver the same second transaction from the same committed
// state — node B with a freshly constructed chain (a restarted node). Anything a decorator keeps in
// memory from the rejected transaction makes the nodes diverge.
func H_C01_AnteRollback() {
	now := AnyBlockTime("now")
	ae := NewAnteEnv(now, true)
	setupBooksOpt(ae.E, false)
	ae.Bank.AddBase(Addr(0))
	ae.Bank.Fund(Addr(0), "nund", rt.BigInt("payer.liquid", 0, 128))
	owner := Addr(0).String()
	mod := rt.Choose(2)
	purchase := func(tag string) sdk.Msg {
		if mod == 0 {
			return &wrktypes.MsgPurchaseWrkChainStateStorage{WrkchainId: ae.WID, Number: rt.U64(tag + ".slots"), Owner: owner}
		}
		return &beacontypes.MsgPurchaseBeaconStateStorage{BeaconId: ae.BID, Number: rt.U64(tag + ".slots"), Owner: owner}
	}
	tx1 := &model.Tx{Msgs: []sdk.Msg{purchase("t1")}, Fee: sdk.Coins{sdk.NewCoin("nund", rt.BigInt("t1.fee", 1, 128))}, Payer: Addr(0), Gas: 200000}
	tx2 := &model.Tx{Msgs: []sdk.Msg{purchase("t2")}, Fee: sdk.Coins{sdk.NewCoin("nund", rt.BigInt("t2.fee", 1, 128))}, Payer: Addr(0), Gas: 200000}
	a, b := forkEnvMode(ae.Env, false), forkEnvMode(ae.Env, false)
	ca, cb := anteChainOn(ae, a), anteChainOn(ae, b)
	// node A: mempool check of tx1 on a scratch branch of the state; only rejections that moved no
	// funds are considered (the ledger model is not branched)
	ledger := a.Bank.Clone()
	scratch := rt.NewContext(a.MS.Snapshot(), now, 10, true)
	var err1 error
	pan1 := rt.Catch(func() { _, err1 = ca(scratch, tx1, false) })
	rt.Assume(pan1 || err1 != nil)
	rt.Assume(a.Bank.SameAs(ledger))
	rt.Reach("first-tx-rejected")
	var errA, errB error
	panA := rt.Catch(func() { _, errA = ca(a.Ctx, tx2, false) })
	rt.EnvBarrier()
	panB := rt.Catch(func() { _, errB = cb(b.Ctx, tx2, false) })
	assertSame("restart.ante", a, b, errA, errB, panA, panB, true)
	if !panA && errA == nil {
		rt.Reach("second-tx-admitted")
	}
	rt.Reach("end")
}

// Restart safety / no state outside the stores: node A executes a state-changing message whose
// transaction then FAILS (its store branch is discarded, as baseapp does), and goes on to execute
// a second message; node B is started freshly from the committed database (new keeper objects)
// and executes only the second message. Anything a keeper remembers in memory from the discarded
// transaction makes the nodes diverge.

// H_C01_StreamRollback: a rolled-back parameter update, then a claim.
func H_C01_StreamRollback() {
	now := AnyBlockTime("now")
	se := NewStreamEnv(now)
	fee := AnyValidatorFee("valFee")
	_ = se.K.SetParams(se.Ctx, streamtypes.Params{ValidatorFee: fee})
	pre := setupStream(se, "nund")
	rt.Assume(rt.IntLt(sdk.ZeroInt(), pre.Deposit))
	committedMS, committedBank := se.MS.Snapshot(), se.Bank.Clone()
	pristine := se.MS.DeepSnapshot() // the database as a restarting node reads it
	// node A: long-running keeper se.K
	sa := streamkeeper.NewMsgServerImpl(se.K)
	fee2 := AnyValidatorFee("valFee2")
	_, _ = sa.UpdateParams(sdk.WrapSDKContext(se.Ctx), &streamtypes.MsgUpdateParams{Authority: Authority(), Params: streamtypes.Params{ValidatorFee: fee2}})
	// ... the transaction fails later on: its writes are discarded
	a := &Env{MS: committedMS.Snapshot(), Bank: se.Bank, Now: now}
	a.Ctx = rt.NewContext(a.MS, now, 10, false)
	rt.Assume(se.Bank.SameAs(committedBank)) // UpdateParams moves no coins
	msg := &streamtypes.MsgClaimStream{Receiver: pre.Receiver.String(), Sender: pre.Sender.String()}
	var errA, errB error
	var ra, rb *streamtypes.MsgClaimStreamResponse
	panA := rt.Catch(func() { ra, errA = sa.ClaimStream(sdk.WrapSDKContext(a.Ctx), msg) })
	// node B: restarted from the committed state
	b := &Env{MS: pristine, Bank: committedBank, Now: now}
	b.Ctx = rt.NewContext(b.MS, now, 10, false)
	sb := streamkeeper.NewMsgServerImpl(streamkeeper.NewKeeper(se.Key, b.Bank, b.Bank, rt.Codec(), authtypes.FeeCollectorName, Authority()))
	panB := rt.Catch(func() { rb, errB = sb.ClaimStream(sdk.WrapSDKContext(b.Ctx), msg) })
	respEq := true
	if ra != nil && rb != nil {
		respEq = rt.And(rt.IntEq(ra.TotalClaimed.Amount, rb.TotalClaimed.Amount), rt.IntEq(ra.ValidatorFee.Amount, rb.ValidatorFee.Amount))
	}
	rt.Assert("C01.restart.stream-same-outcome", rt.And(panA == panB, rt.ErrCode(errA) == rt.ErrCode(errB)))
	rt.Assert("C01.restart.stream-same-response", respEq)
	rt.Assert("C01.restart.stream-same-state", rt.And(a.MS.SameAs(b.MS), a.Bank.SameAs(b.Bank)))
	rt.Reach("end")
}

// H_C01_WrkRollback: a rolled-back parameter update / registration, then a purchase or record.
func H_C01_WrkRollback() {
	now := AnyBlockTime("now")
	we := NewWrkEnv(now)
	pre := setupWrk(we, 1)
	committed := we.MS.Snapshot()
	pristine := we.MS.DeepSnapshot()
	sa := wrkkeeper.NewMsgServerImpl(we.K)
	switch rt.Choose(3) {
	case 0:
		_, _ = sa.UpdateParams(sdk.WrapSDKContext(we.Ctx), &wrktypes.MsgUpdateParams{Authority: Authority(), Params: anyWrkParamsFull("q")})
	case 1:
		_, _ = sa.PurchaseWrkChainStateStorage(sdk.WrapSDKContext(we.Ctx), &wrktypes.MsgPurchaseWrkChainStateStorage{WrkchainId: pre.ID, Number: rt.U64("x.number"), Owner: Addr(0).String()})
	default:
		_, _ = sa.RegisterWrkChain(sdk.WrapSDKContext(we.Ctx), &wrktypes.MsgRegisterWrkChain{Moniker: "x", Name: "x", Owner: Addr(0).String()})
	}
	a := &Env{MS: committed.Snapshot(), Bank: we.Bank, Now: now}
	a.Ctx = rt.NewContext(a.MS, now, 10, false)
	b := &Env{MS: pristine, Bank: we.Bank, Now: now}
	b.Ctx = rt.NewContext(b.MS, now, 10, false)
	sb := wrkkeeper.NewMsgServerImpl(wrkkeeper.NewKeeper(we.Key, rt.Codec(), Authority()))
	var errA, errB error
	var panA, panB bool
	if rt.Choose(2) == 0 {
		msg := &wrktypes.MsgPurchaseWrkChainStateStorage{WrkchainId: pre.ID, Number: rt.U64("m.number"), Owner: Addr(0).String()}
		rt.Assume(msg.ValidateBasic() == nil)
		panA = rt.Catch(func() { _, errA = sa.PurchaseWrkChainStateStorage(sdk.WrapSDKContext(a.Ctx), msg) })
		panB = rt.Catch(func() { _, errB = sb.PurchaseWrkChainStateStorage(sdk.WrapSDKContext(b.Ctx), msg) })
	} else {
		msg := &wrktypes.MsgRegisterWrkChain{Moniker: "m", Name: "n", Owner: Addr(1).String()}
		panA = rt.Catch(func() { _, errA = sa.RegisterWrkChain(sdk.WrapSDKContext(a.Ctx), msg) })
		panB = rt.Catch(func() { _, errB = sb.RegisterWrkChain(sdk.WrapSDKContext(b.Ctx), msg) })
	}
	rt.Assert("C01.restart.wrk-same-outcome", rt.And(panA == panB, rt.ErrCode(errA) == rt.ErrCode(errB)))
	rt.Assert("C01.restart.wrk-same-state", a.MS.SameAs(b.MS))
	rt.Reach("end")
}

// H_C01_EntRollback: a rolled-back parameter update, then a decision and the begin blocker.
func H_C01_EntRollback() {
	now := AnyBlockTime("now")
	ee := NewEntEnvOn(NewEnv(now, false), 2)
	k, ctx := ee.K, ee.Ctx
	nowSec := uint64(now.Unix())
	k.SetHighestPurchaseOrderID(ctx, 10)
	setupBooksOpt(ee, false)
	ee.Bank.AddBase(Addr(0))
	ee.Bank.AddBase(Addr(1))
	po := anyOrder("po", 4, Addr(0), enttypes.StatusRaised, 1, nowSec)
	_ = k.SetPurchaseOrder(ctx, po)
	k.AddPoToRaisedQueue(ctx, 4)
	_ = k.AddAddressToWhitelist(ctx, Addr(0))
	committed, committedBank := ee.MS.Snapshot(), ee.Bank.Clone()
	pristine := ee.MS.DeepSnapshot()
	sa := entkeeper.NewMsgServerImpl(k)
	rolledBackRaise := rt.Choose(2) == 1
	if rolledBackRaise {
		_, _ = sa.UndPurchaseOrder(sdk.WrapSDKContext(ctx), &enttypes.MsgUndPurchaseOrder{Purchaser: Addr(0).String(), Amount: sdk.NewCoin("nund", rt.BigInt("x.amount", 1, 128))})
	} else {
		p2 := enttypes.Params{EntSigners: Signer(2).String(), Denom: "nund", MinAccepts: 1, DecisionTimeLimit: rt.U64("q.decisionLimit")}
		_, _ = sa.UpdateParams(sdk.WrapSDKContext(ctx), &enttypes.MsgUpdateParams{Authority: Authority(), Params: p2})
	}
	a := &Env{MS: committed.Snapshot(), Bank: ee.Bank, Now: now}
	a.Ctx = rt.NewContext(a.MS, now, 10, false)
	b := &Env{MS: pristine, Bank: committedBank, Now: now}
	b.Ctx = rt.NewContext(b.MS, now, 10, false)
	kb := entkeeper.NewKeeper(ee.Key, b.Bank, b.Bank, rt.Codec(), Authority())
	sb := entkeeper.NewMsgServerImpl(kb)
	msg := &enttypes.MsgProcessUndPurchaseOrder{PurchaseOrderId: 4, Decision: enttypes.StatusAccepted, Signer: Signer(rt.Choose(3)).String()}
	var errA, errB error
	panA := rt.Catch(func() {
		_, errA = sa.ProcessUndPurchaseOrder(sdk.WrapSDKContext(a.Ctx), msg)
		enterprise.BeginBlocker(a.Ctx, k)
	})
	panB := rt.Catch(func() {
		_, errB = sb.ProcessUndPurchaseOrder(sdk.WrapSDKContext(b.Ctx), msg)
		enterprise.BeginBlocker(b.Ctx, kb)
	})
	if rolledBackRaise && !panA && !panB {
		// a new order raised on both nodes gets the same id
		rmsg := &enttypes.MsgUndPurchaseOrder{Purchaser: Addr(0).String(), Amount: sdk.NewCoin("nund", rt.BigInt("y.amount", 1, 128))}
		ra, ea := sa.UndPurchaseOrder(sdk.WrapSDKContext(a.Ctx), rmsg)
		rb, eb := sb.UndPurchaseOrder(sdk.WrapSDKContext(b.Ctx), rmsg)
		rt.Assert("C01.restart.ent-same-order-id", rt.And(rt.ErrCode(ea) == rt.ErrCode(eb), rt.Implies(ea == nil && eb == nil, ra.PurchaseOrderId == rb.PurchaseOrderId)))
	}
	rt.Assert("C01.restart.ent-same-outcome", rt.And(panA == panB, rt.ErrCode(errA) == rt.ErrCode(errB)))
	rt.Assert("C01.restart.ent-same-state", rt.And(a.MS.SameAs(b.MS), a.Bank.SameAs(b.Bank)))
	rt.Reach("end")
}
