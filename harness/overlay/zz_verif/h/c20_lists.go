package h

import (
	sdk "github.com/cosmos/cosmos-sdk/types"
	"github.com/cosmos/cosmos-sdk/types/query"

	beacontypes "github.com/unification-com/mainchain/x/beacon/types"
	enttypes "github.com/unification-com/mainchain/x/enterprise/types"
	streamtypes "github.com/unification-com/mainchain/x/stream/types"
	wrktypes "github.com/unification-com/mainchain/x/wrkchain/types"
	"github.com/unification-com/mainchain/zz_verif/rt"
)

// pageMode: how a client walks a list. 0 = by key (follow NextKey), 1 = by offset.
// limit in 1..maxLimit. The walk is bounded by maxPages; running out of pages is an assertion
// failure (the list must terminate within N+1 pages).

// H_C20_WrkChains: WrkChainsFiltered over n <= 3 registered chains (symbolic ids, monikers,
// owners from two actors), any owner/moniker filter, paging by key or by offset with limit 1..2.
func H_C20_WrkChains() {
	now := AnyBlockTime("now")
	we := NewWrkEnv(now)
	k, ctx := we.K, we.Ctx
	maxN := 2
	if rt.Thorough() {
		maxN = 3
	}
	n := rt.Choose(maxN + 1)
	var ids [3]uint64
	var items [3]wrktypes.WrkChain
	ids[0], ids[1], ids[2] = rt.U64("id0"), rt.U64("id1"), rt.U64("id2")
	rt.Assume(rt.And(ids[0] >= 1, rt.And(ids[0] < ids[1], ids[1] < ids[2])))
	for i := 0; i < n; i++ {
		tag := "wc" + string(rune('0'+i))
		items[i] = wrktypes.WrkChain{WrkchainId: ids[i], Moniker: rt.Str(tag + ".moniker"), Name: rt.Str(tag + ".name"),
			Lastblock: rt.U64(tag + ".last"), NumBlocks: rt.U64(tag + ".num"), RegTime: rt.U64(tag + ".reg"), Owner: Addr(rt.Choose(2)).String()}
		_ = k.SetWrkChain(ctx, items[i])
		// neighbouring sections are populated too
		_ = k.SetWrkChainStorageLimit(ctx, ids[i], 5)
		_ = k.SetWrkChainBlock(ctx, ids[i], wrktypes.WrkChainBlock{Height: 1, Blockhash: "x"})
	}
	k.SetHighestWrkChainID(ctx, 99)
	fOwner, fMoniker := "", ""
	if rt.Choose(2) == 1 {
		fOwner = Addr(0).String()
	}
	if rt.Choose(2) == 1 {
		fMoniker = rt.Str("f.moniker")
		rt.Assume(len(fMoniker) > 0)
	}
	matches := func(wc wrktypes.WrkChain) bool {
		return rt.And(rt.Or(fOwner == "", wc.Owner == fOwner), rt.Or(fMoniker == "", wc.Moniker == fMoniker))
	}
	writes := we.MS.TotalWrites()
	mode := rt.Choose(2)
	limit := uint64(1 + rt.Choose(2))
	var got []wrktypes.WrkChain
	var next []byte
	offset := uint64(0)
	done := false
	for page := 0; page < maxN+2 && !done; page++ {
		pr := &query.PageRequest{Limit: limit}
		if mode == 0 {
			pr.Key = next
		} else {
			pr.Offset = offset
		}
		res, err := k.WrkChainsFiltered(sdk.WrapSDKContext(ctx), &wrktypes.QueryWrkChainsFilteredRequest{Owner: fOwner, Moniker: fMoniker, Pagination: pr})
		rt.Assert("C20.wrkchains-query-ok", err == nil)
		if err != nil {
			return
		}
		rt.Assert("C20.wrkchains-page-within-limit", uint64(len(res.Wrkchains)) <= limit)
		got = append(got, res.Wrkchains...)
		next = res.Pagination.NextKey
		offset += limit
		if len(next) == 0 {
			done = true
		}
	}
	rt.Assert("C20.wrkchains-walk-terminates", done)
	rt.Reach("walk-done")
	// every stored item appears exactly once iff it matches the filter; nothing else appears
	total := sdk.ZeroInt()
	for i := 0; i < n; i++ {
		occ := sdk.ZeroInt()
		for _, g := range got {
			occ = rt.IteInt(g.WrkchainId == ids[i], occ.AddRaw(1), occ)
		}
		rt.Assert("C20.wrkchains-each-match-exactly-once", rt.IntEq(occ, rt.IteInt(matches(items[i]), sdk.OneInt(), sdk.ZeroInt())))
		total = total.Add(occ)
	}
	rt.Assert("C20.wrkchains-nothing-else", rt.IntEq(total, sdk.NewInt(int64(len(got)))))
	for j, g := range got {
		pq, found := k.GetWrkChain(ctx, g.WrkchainId)
		rt.Assert("C20.wrkchains-item=point-query", rt.And(found, pq == g))
		if j > 0 {
			rt.Assert("C18.wrkchains-ascending", got[j-1].WrkchainId < g.WrkchainId)
		}
	}
	rt.Assert("C20.wrkchains-query-writes-nothing", we.MS.TotalWrites() == writes)
}

// H_C20_Beacons: BeaconsFiltered, same shape as H_C20_WrkChains.
func H_C20_Beacons() {
	now := AnyBlockTime("now")
	be := NewBeaconEnv(now)
	k, ctx := be.K, be.Ctx
	maxN := 2
	if rt.Thorough() {
		maxN = 3
	}
	n := rt.Choose(maxN + 1)
	var ids [3]uint64
	var items [3]beacontypes.Beacon
	ids[0], ids[1], ids[2] = rt.U64("id0"), rt.U64("id1"), rt.U64("id2")
	rt.Assume(rt.And(ids[0] >= 1, rt.And(ids[0] < ids[1], ids[1] < ids[2])))
	for i := 0; i < n; i++ {
		tag := "b" + string(rune('0'+i))
		items[i] = beacontypes.Beacon{BeaconId: ids[i], Moniker: rt.Str(tag + ".moniker"), Name: rt.Str(tag + ".name"),
			LastTimestampId: rt.U64(tag + ".last"), NumInState: rt.U64(tag + ".num"), RegTime: rt.U64(tag + ".reg"), Owner: Addr(rt.Choose(2)).String()}
		_ = k.SetBeacon(ctx, items[i])
		_ = k.SetBeaconStorageLimit(ctx, ids[i], 5)
		_ = k.SetBeaconTimestamp(ctx, ids[i], beacontypes.BeaconTimestamp{TimestampId: 1, Hash: "x"})
	}
	k.SetHighestBeaconID(ctx, 99)
	fOwner, fMoniker := "", ""
	if rt.Choose(2) == 1 {
		fOwner = Addr(0).String()
	}
	if rt.Choose(2) == 1 {
		fMoniker = rt.Str("f.moniker")
		rt.Assume(len(fMoniker) > 0)
	}
	matches := func(b beacontypes.Beacon) bool {
		return rt.And(rt.Or(fOwner == "", b.Owner == fOwner), rt.Or(fMoniker == "", b.Moniker == fMoniker))
	}
	writes := be.MS.TotalWrites()
	mode := rt.Choose(2)
	limit := uint64(1 + rt.Choose(2))
	var got []beacontypes.Beacon
	var next []byte
	offset := uint64(0)
	done := false
	for page := 0; page < maxN+2 && !done; page++ {
		pr := &query.PageRequest{Limit: limit}
		if mode == 0 {
			pr.Key = next
		} else {
			pr.Offset = offset
		}
		res, err := k.BeaconsFiltered(sdk.WrapSDKContext(ctx), &beacontypes.QueryBeaconsFilteredRequest{Owner: fOwner, Moniker: fMoniker, Pagination: pr})
		rt.Assert("C20.beacons-query-ok", err == nil)
		if err != nil {
			return
		}
		rt.Assert("C20.beacons-page-within-limit", uint64(len(res.Beacons)) <= limit)
		got = append(got, res.Beacons...)
		next = res.Pagination.NextKey
		offset += limit
		if len(next) == 0 {
			done = true
		}
	}
	rt.Assert("C20.beacons-walk-terminates", done)
	rt.Reach("walk-done")
	total := sdk.ZeroInt()
	for i := 0; i < n; i++ {
		occ := sdk.ZeroInt()
		for _, g := range got {
			occ = rt.IteInt(g.BeaconId == ids[i], occ.AddRaw(1), occ)
		}
		rt.Assert("C20.beacons-each-match-exactly-once", rt.IntEq(occ, rt.IteInt(matches(items[i]), sdk.OneInt(), sdk.ZeroInt())))
		total = total.Add(occ)
	}
	rt.Assert("C20.beacons-nothing-else", rt.IntEq(total, sdk.NewInt(int64(len(got)))))
	for j, g := range got {
		pq, found := k.GetBeacon(ctx, g.BeaconId)
		rt.Assert("C20.beacons-item=point-query", rt.And(found, pq == g))
		if j > 0 {
			rt.Assert("C18.beacons-ascending", got[j-1].BeaconId < g.BeaconId)
		}
	}
	rt.Assert("C20.beacons-query-writes-nothing", be.MS.TotalWrites() == writes)
}

// H_C20_PurchaseOrders: EnterpriseUndPurchaseOrders with status and purchaser filters, and the
// whitelist listing.
func H_C20_PurchaseOrders() {
	now := AnyBlockTime("now")
	ee := NewEntEnvOn(NewEnv(now, false), 1)
	k, ctx := ee.K, ee.Ctx
	nowSec := uint64(now.Unix())
	maxN := 2
	if rt.Thorough() {
		maxN = 3
	}
	n := rt.Choose(maxN + 1)
	var ids [3]uint64
	var items [3]enttypes.EnterpriseUndPurchaseOrder
	ids[0], ids[1], ids[2] = rt.U64("id0"), rt.U64("id1"), rt.U64("id2")
	rt.Assume(rt.And(ids[0] >= 1, rt.And(ids[0] < ids[1], ids[1] < ids[2])))
	for i := 0; i < n; i++ {
		st := enttypes.PurchaseOrderStatus(1 + rt.Choose(2)) // raised or accepted
		items[i] = anyOrder("po"+string(rune('0'+i)), ids[i], Addr(rt.Choose(2)), st, 1, nowSec)
		_ = k.SetPurchaseOrder(ctx, items[i])
		if st == enttypes.StatusRaised {
			k.AddPoToRaisedQueue(ctx, ids[i])
		} else {
			k.AddPoToAcceptedQueue(ctx, ids[i])
		}
	}
	k.SetHighestPurchaseOrderID(ctx, 99)
	_ = k.SetLockedUndForAccount(ctx, enttypes.LockedUnd{Owner: Addr(0).String(), Amount: sdk.NewInt64Coin("nund", 5)})
	fStatus := enttypes.PurchaseOrderStatus(rt.Choose(3)) // nil (no filter), raised, accepted
	fPurchaser := ""
	if rt.Choose(2) == 1 {
		fPurchaser = Addr(0).String()
	}
	matches := func(po enttypes.EnterpriseUndPurchaseOrder) bool {
		return (fStatus == enttypes.StatusNil || po.Status == fStatus) && (fPurchaser == "" || po.Purchaser == fPurchaser)
	}
	writes := ee.MS.TotalWrites()
	mode := rt.Choose(2)
	limit := uint64(1 + rt.Choose(2))
	var got []enttypes.EnterpriseUndPurchaseOrder
	var next []byte
	offset := uint64(0)
	done := false
	for page := 0; page < maxN+2 && !done; page++ {
		pr := &query.PageRequest{Limit: limit}
		if mode == 0 {
			pr.Key = next
		} else {
			pr.Offset = offset
		}
		res, err := k.EnterpriseUndPurchaseOrders(sdk.WrapSDKContext(ctx), &enttypes.QueryEnterpriseUndPurchaseOrdersRequest{Status: fStatus, Purchaser: fPurchaser, Pagination: pr})
		rt.Assert("C20.orders-query-ok", err == nil)
		if err != nil {
			return
		}
		rt.Assert("C20.orders-page-within-limit", uint64(len(res.PurchaseOrders)) <= limit)
		got = append(got, res.PurchaseOrders...)
		next = res.Pagination.NextKey
		offset += limit
		if len(next) == 0 {
			done = true
		}
	}
	rt.Assert("C20.orders-walk-terminates", done)
	rt.Reach("walk-done")
	total := sdk.ZeroInt()
	for i := 0; i < n; i++ {
		occ := sdk.ZeroInt()
		for _, g := range got {
			occ = rt.IteInt(g.Id == ids[i], occ.AddRaw(1), occ)
		}
		want := sdk.ZeroInt()
		if matches(items[i]) {
			want = sdk.OneInt()
		}
		rt.Assert("C20.orders-each-match-exactly-once", rt.IntEq(occ, want))
		total = total.Add(occ)
	}
	rt.Assert("C20.orders-nothing-else", rt.IntEq(total, sdk.NewInt(int64(len(got)))))
	for j, g := range got {
		pq, found := k.GetPurchaseOrder(ctx, g.Id)
		rt.Assert("C20.orders-item=point-query", rt.And(found, orderEq(pq, g)))
		if j > 0 {
			rt.Assert("C18.orders-ascending", got[j-1].Id < g.Id)
		}
	}
	// whitelist listing: every whitelisted address exactly once, consistent with the point query
	wl0, wl1 := rt.Choose(2) == 1, rt.Choose(2) == 1
	if wl0 {
		_ = k.AddAddressToWhitelist(ctx, Addr(0))
	}
	if wl1 {
		_ = k.AddAddressToWhitelist(ctx, Addr(1))
	}
	writes = ee.MS.TotalWrites()
	wres, werr := k.Whitelist(sdk.WrapSDKContext(ctx), &enttypes.QueryWhitelistRequest{})
	rt.Assert("C20.whitelist-query-ok", werr == nil)
	if werr == nil {
		c0, c1 := 0, 0
		for _, a := range wres.Addresses {
			if a == Addr(0).String() {
				c0++
			}
			if a == Addr(1).String() {
				c1++
			}
		}
		b2i := func(b bool) int {
			if b {
				return 1
			}
			return 0
		}
		rt.Assert("C20.whitelist-complete-no-duplicates", c0 == b2i(wl0) && c1 == b2i(wl1) && len(wres.Addresses) == c0+c1)
		w0, _ := k.Whitelisted(sdk.WrapSDKContext(ctx), &enttypes.QueryWhitelistedRequest{Address: Addr(0).String()})
		rt.Assert("C20.whitelist-consistent-with-point-query", w0.Whitelisted == wl0)
	}
	rt.Assert("C20.orders-query-writes-nothing", ee.MS.TotalWrites() == writes)
}

// H_C20_Streams: the three stream listings over up to 3 streams among 3 actors.
func H_C20_Streams() {
	now := AnyBlockTime("now")
	se := NewStreamEnv(now)
	k, ctx := se.K, se.Ctx
	_ = k.SetParams(ctx, streamtypes.Params{ValidatorFee: sdk.NewDecWithPrec(1, 2)})
	type pair struct{ R, S int }
	pairs := []pair{{0, 1}, {0, 2}, {2, 1}}
	var present [3]bool
	var items [3]streamtypes.Stream
	n := 0
	for i := range pairs {
		present[i] = rt.Choose(2) == 1
		if present[i] {
			tag := "s" + string(rune('0'+i))
			items[i] = streamtypes.Stream{Deposit: sdk.NewCoin("nund", rt.BigInt(tag+".deposit", 0, 128)), FlowRate: rt.I64(tag + ".rate"),
				LastOutflowTime: rt.Time(tag + ".last"), DepositZeroTime: rt.Time(tag + ".zero"), Cancellable: rt.Bool(tag + ".cancellable")}
			_ = k.SetStream(ctx, Addr(pairs[i].R), Addr(pairs[i].S), items[i])
			n++
		}
	}
	writes := se.MS.TotalWrites()
	which := rt.Choose(3) // 0 all streams, 1 by sender actor1, 2 by receiver actor0
	mode := rt.Choose(2)
	limit := uint64(1 + rt.Choose(2))
	var got []streamtypes.StreamResult
	var next []byte
	offset := uint64(0)
	done := false
	for page := 0; page < 5 && !done; page++ {
		pr := &query.PageRequest{Limit: limit}
		if mode == 0 {
			pr.Key = next
		} else {
			pr.Offset = offset
		}
		var page_ []*streamtypes.StreamResult
		var pres *query.PageResponse
		var err error
		switch which {
		case 0:
			r, e := k.Streams(sdk.WrapSDKContext(ctx), &streamtypes.QueryStreamsRequest{Pagination: pr})
			err = e
			if e == nil {
				page_, pres = r.Streams, r.Pagination
			}
		case 1:
			r, e := k.AllStreamsForSender(sdk.WrapSDKContext(ctx), &streamtypes.QueryAllStreamsForSenderRequest{SenderAddr: Addr(1).String(), Pagination: pr})
			err = e
			if e == nil {
				page_, pres = r.Streams, r.Pagination
			}
		default:
			r, e := k.AllStreamsForReceiver(sdk.WrapSDKContext(ctx), &streamtypes.QueryAllStreamsForReceiverRequest{ReceiverAddr: Addr(0).String(), Pagination: pr})
			err = e
			if e == nil {
				page_, pres = r.Streams, r.Pagination
			}
		}
		rt.Assert("C20.streams-query-ok", err == nil)
		if err != nil {
			return
		}
		rt.Assert("C20.streams-page-within-limit", uint64(len(page_)) <= limit)
		for _, sr := range page_ {
			got = append(got, *sr)
		}
		next = pres.NextKey
		offset += limit
		if len(next) == 0 {
			done = true
		}
	}
	rt.Assert("C20.streams-walk-terminates", done)
	rt.Reach("walk-done")
	expected := 0
	for i, pr := range pairs {
		match := present[i] && (which == 0 || (which == 1 && pr.S == 1) || (which == 2 && pr.R == 0))
		occ := 0
		for _, g := range got {
			if g.Receiver == Addr(pr.R).String() && g.Sender == Addr(pr.S).String() {
				occ++
				pq, found := k.GetStream(ctx, Addr(pr.R), Addr(pr.S))
				rt.Assert("C20.streams-item=point-query", rt.And(found, rt.And(rt.And(rt.IntEq(pq.Deposit.Amount, g.Stream.Deposit.Amount), pq.FlowRate == g.Stream.FlowRate),
					rt.And(pq.LastOutflowTime.Equal(g.Stream.LastOutflowTime), rt.And(pq.DepositZeroTime.Equal(g.Stream.DepositZeroTime), pq.Cancellable == g.Stream.Cancellable)))))
				rt.Assert("C18.stream-listed-with-its-own-parties", rt.And(rt.IntEq(g.Stream.Deposit.Amount, items[i].Deposit.Amount), g.Stream.FlowRate == items[i].FlowRate))
			}
		}
		want := 0
		if match {
			want = 1
		}
		rt.Assert("C20.streams-each-match-exactly-once", occ == want)
		expected += want
	}
	rt.Assert("C20.streams-nothing-else", len(got) == expected)
	rt.Assert("C20.streams-query-writes-nothing", se.MS.TotalWrites() == writes)
	_ = n
}

// H_C20_Interleaved: four stored items of which the first and the third match the filter and the
// second and fourth do not (symbolic ids, concrete pattern), walked by key and by offset with limit 1..2:
// non-matching items in between must not shift offsets or produce duplicates.
func H_C20_Interleaved() {
	now := AnyBlockTime("now")
	ids := [4]uint64{rt.U64("id0"), rt.U64("id1"), rt.U64("id2"), rt.U64("id3")}
	rt.Assume(rt.And(rt.And(ids[0] >= 1, ids[0] < ids[1]), rt.And(ids[1] < ids[2], ids[2] < ids[3])))
	mode := rt.Choose(2)
	limit := uint64(1 + rt.Choose(2))
	which := rt.Choose(3)
	var got []uint64
	var next []byte
	offset := uint64(0)
	done := false
	page := func(pr *query.PageRequest) ([]uint64, []byte, error) { return nil, nil, nil }
	switch which {
	case 0: // purchase orders filtered by purchaser
		ee := NewEntEnvOn(NewEnv(now, false), 1)
		for i := 0; i < 4; i++ {
			po := anyOrder("po"+string(rune('0'+i)), ids[i], Addr(i%2), enttypes.StatusRaised, 0, uint64(now.Unix()))
			_ = ee.K.SetPurchaseOrder(ee.Ctx, po)
		}
		page = func(pr *query.PageRequest) ([]uint64, []byte, error) {
			res, err := ee.K.EnterpriseUndPurchaseOrders(sdk.WrapSDKContext(ee.Ctx), &enttypes.QueryEnterpriseUndPurchaseOrdersRequest{Purchaser: Addr(0).String(), Pagination: pr})
			if err != nil {
				return nil, nil, err
			}
			var out []uint64
			for _, x := range res.PurchaseOrders {
				out = append(out, x.Id)
			}
			return out, res.Pagination.NextKey, nil
		}
	case 1: // WRKChains filtered by owner
		we := NewWrkEnv(now)
		for i := 0; i < 4; i++ {
			_ = we.K.SetWrkChain(we.Ctx, wrktypes.WrkChain{WrkchainId: ids[i], Moniker: "m", Owner: Addr(i % 2).String(), Lastblock: rt.U64("last" + string(rune('0'+i)))})
		}
		page = func(pr *query.PageRequest) ([]uint64, []byte, error) {
			res, err := we.K.WrkChainsFiltered(sdk.WrapSDKContext(we.Ctx), &wrktypes.QueryWrkChainsFilteredRequest{Owner: Addr(0).String(), Pagination: pr})
			if err != nil {
				return nil, nil, err
			}
			var out []uint64
			for _, x := range res.Wrkchains {
				out = append(out, x.WrkchainId)
			}
			return out, res.Pagination.NextKey, nil
		}
	default: // BEACONs filtered by owner
		be := NewBeaconEnv(now)
		for i := 0; i < 4; i++ {
			_ = be.K.SetBeacon(be.Ctx, beacontypes.Beacon{BeaconId: ids[i], Moniker: "m", Name: "n", Owner: Addr(i % 2).String(), LastTimestampId: rt.U64("last" + string(rune('0'+i)))})
		}
		page = func(pr *query.PageRequest) ([]uint64, []byte, error) {
			res, err := be.K.BeaconsFiltered(sdk.WrapSDKContext(be.Ctx), &beacontypes.QueryBeaconsFilteredRequest{Owner: Addr(0).String(), Pagination: pr})
			if err != nil {
				return nil, nil, err
			}
			var out []uint64
			for _, x := range res.Beacons {
				out = append(out, x.BeaconId)
			}
			return out, res.Pagination.NextKey, nil
		}
	}
	for p := 0; p < 6 && !done; p++ {
		pr := &query.PageRequest{Limit: limit}
		if mode == 0 {
			pr.Key = next
		} else {
			pr.Offset = offset
		}
		ids_, nk, err := page(pr)
		rt.Assert("C20.interleaved-query-ok", err == nil)
		if err != nil {
			return
		}
		got = append(got, ids_...)
		next = nk
		offset += limit
		if len(next) == 0 {
			done = true
		}
	}
	rt.Assert("C20.interleaved-walk-terminates", done)
	rt.Assert("C20.interleaved-exactly-the-two-matches-in-order", len(got) == 2 && got[0] == ids[0] && got[1] == ids[2])
	rt.Reach("end")
}

// H_C18_StreamListLengths: stream listings with parties of different address lengths: a 32-byte
// sender whose last 21 bytes equal the length-prefixed 20-byte account Q, and a 32-byte receiver whose first 20 bytes
// equal Q. Q took part in no stream: its listings are empty, and the real parties are reported
// exactly.
func H_C18_StreamListLengths() {
	now := AnyBlockTime("now")
	se := NewStreamEnv(now)
	k, ctx := se.K, se.Ctx
	q := Addr(0) // 20 bytes, never a party
	s32 := make([]byte, 32)
	r32 := make([]byte, 32)
	for i := 0; i < 12; i++ {
		s32[i] = 0xA0 + byte(i)
		r32[20+i] = 0xB0 + byte(i)
	}
	copy(s32[12:], q)
	s32[11] = 20 // ...and the byte before them is Q's length prefix: the sender ends in <len(Q)><Q>
	copy(r32[:20], q)
	sender, receiver := sdk.AccAddress(s32), sdk.AccAddress(r32)
	st := streamtypes.Stream{Deposit: sdk.NewCoin("nund", rt.BigInt("deposit", 1, 128)), FlowRate: rt.I64("rate"), LastOutflowTime: now, DepositZeroTime: now, Cancellable: true}
	_ = k.SetStream(ctx, receiver, sender, st)
	_ = k.SetStream(ctx, Addr(1), sender, st)
	pr := &query.PageRequest{Limit: 10}
	bs, err1 := k.AllStreamsForSender(sdk.WrapSDKContext(ctx), &streamtypes.QueryAllStreamsForSenderRequest{SenderAddr: q.String(), Pagination: pr})
	rt.Assert("C18+C20.no-streams-for-uninvolved-sender", err1 == nil && len(bs.Streams) == 0)
	br, err2 := k.AllStreamsForReceiver(sdk.WrapSDKContext(ctx), &streamtypes.QueryAllStreamsForReceiverRequest{ReceiverAddr: q.String(), Pagination: pr})
	rt.Assert("C18+C20.no-streams-for-uninvolved-receiver", err2 == nil && len(br.Streams) == 0)
	ss, err3 := k.AllStreamsForSender(sdk.WrapSDKContext(ctx), &streamtypes.QueryAllStreamsForSenderRequest{SenderAddr: sender.String(), Pagination: pr})
	rt.Assert("C18+C20.long-sender-lists-both-streams", err3 == nil && len(ss.Streams) == 2 && ss.Streams[0].Sender == sender.String() && ss.Streams[1].Sender == sender.String())
	all, err4 := k.Streams(sdk.WrapSDKContext(ctx), &streamtypes.QueryStreamsRequest{Pagination: pr})
	rt.Assert("C18+C20.all-streams-report-real-parties", err4 == nil && len(all.Streams) == 2)
	if err4 == nil && len(all.Streams) == 2 {
		for _, x := range all.Streams {
			rt.Assert("C18+C20.listed-sender-is-creator", x.Sender == sender.String() && (x.Receiver == receiver.String() || x.Receiver == Addr(1).String()))
		}
	}
	rt.Reach("end")
}
