package h

import (
	"strings"
	"time"

	abci "github.com/cometbft/cometbft/abci/types"

	storetypes "github.com/cosmos/cosmos-sdk/store/types"
	sdk "github.com/cosmos/cosmos-sdk/types"
	authtypes "github.com/cosmos/cosmos-sdk/x/auth/types"

	"github.com/unification-com/mainchain/x/beacon"
	"github.com/unification-com/mainchain/x/enterprise"
	"github.com/unification-com/mainchain/x/stream"
	streamtypes "github.com/unification-com/mainchain/x/stream/types"
	"github.com/unification-com/mainchain/x/wrkchain"
	entkeeper "github.com/unification-com/mainchain/x/enterprise/keeper"
	enttypes "github.com/unification-com/mainchain/x/enterprise/types"
	"github.com/unification-com/mainchain/zz_verif/rt"
)

// ---------- enterprise environment and INV-E pre-state ----------

type EntEnv struct {
	*Env
	K       entkeeper.Keeper
	Key     *storetypes.KVStoreKey
	Escrow  sdk.AccAddress
	Params  enttypes.Params
	NSign   int // number of authorised signers
	NPool   int // how many of them are pool signers Signer(0..NPool-1)
	Denom   string
}

// Signer i of the authorised-signer pool.
func Signer(i int) sdk.AccAddress { return Addr(3 + i) }

// LongOver0: a 32-byte address (the length of module-derived accounts) made of actor 0's 20 bytes
// followed by the 30 bits of actor 0's bech32 checksum: its bech32 spelling therefore STARTS WITH
// the complete bech32 spelling of actor 0. Authorisation must compare addresses, not spellings.
func LongOver0() sdk.AccAddress {
	b := make([]byte, 32)
	for k := 0; k < 20; k++ {
		b[k] = 0x11
	}
	b[20], b[21], b[22], b[23] = 0x36, 0x20, 0xba, 0x24
	return sdk.AccAddress(b)
}

// NewEntEnv: params = {denom nund, k ∈ 1..3 authorised signers from the pool, symbolic MinAccepts
// in 1..k, symbolic DecisionTimeLimit >= 1}; enterprise module account with the permissions the
// application gives it (app/app.go maccPerms: Minter, Staking; checked by H_C02_Wiring).
func NewEntEnv(now time.Time, checkTx bool) *EntEnv { return NewEntEnvOn(NewEnv(now, checkTx), 0) }

// NewEntEnvOn: nsign = 0 lets the number of authorised signers vary over 1..3.
func NewEntEnvOn(e *Env, nsign int) *EntEnv { return NewEntEnvLong(e, nsign, false) }

// NewEntEnvLong: withLong adds LongOver0() to the authorised signers.
func NewEntEnvLong(e *Env, nsign int, withLong bool) *EntEnv {
	escrow := e.Bank.AddModule(enttypes.ModuleName, authtypes.Minter, authtypes.Staking)
	e.Bank.Block(escrow)
	key := storetypes.NewKVStoreKey(enttypes.StoreKey)
	k := entkeeper.NewKeeper(key, e.Bank, e.Bank, rt.Codec(), Authority())
	ee := &EntEnv{Env: e, K: k, Key: key, Escrow: escrow, Denom: "nund"}
	ee.NSign = nsign
	if nsign == 0 {
		ee.NSign = 1 + rt.Choose(3)
	}
	var ss []string
	for i := 0; i < ee.NSign; i++ {
		ss = append(ss, Signer(i).String())
	}
	ee.NPool = ee.NSign
	if withLong {
		ss = append(ss, LongOver0().String())
		ee.NSign++ // counts towards the number of signers; pool signers keep their indices
	}
	ee.Params = enttypes.Params{EntSigners: strings.Join(ss, ","), Denom: "nund", MinAccepts: rt.U64("p.minAccepts"), DecisionTimeLimit: rt.U64("p.decisionLimit")}
	rt.Assume(ee.Params.Validate() == nil)
	_ = k.SetParams(e.Ctx, ee.Params)
	return ee
}

// anyDecisions: n <= max decisions by distinct authorised-pool signers (INV-E3: at most one
// decision per signer address), each accept or reject, at symbolic times.
func anyDecisions(tag string, max int) enttypes.PurchaseOrderDecisions {
	n := rt.Choose(max + 1)
	var ds enttypes.PurchaseOrderDecisions
	for i := 0; i < n; i++ {
		acc := rt.Bool(tag + ".d" + string(rune('0'+i)) + ".accept")
		dec := enttypes.StatusRejected
		if acc {
			dec = enttypes.StatusAccepted
		}
		ds = append(ds, enttypes.PurchaseOrderDecision{Signer: Signer(i).String(), Decision: dec, DecisionTime: rt.U64(tag + ".d" + string(rune('0'+i)) + ".time")})
	}
	return ds
}

func anyOrder(tag string, id uint64, purchaser sdk.AccAddress, status enttypes.PurchaseOrderStatus, maxDec int, nowSec uint64) enttypes.EnterpriseUndPurchaseOrder {
	amt := rt.BigInt(tag+".amount", 1, 128)
	raise := rt.U64(tag + ".raise")
	rt.Assume(raise <= nowSec)
	po := enttypes.EnterpriseUndPurchaseOrder{Id: id, Purchaser: purchaser.String(), Amount: sdk.NewCoin("nund", amt), Status: status,
		RaiseTime: raise, Decisions: anyDecisions(tag, maxDec)}
	if status != enttypes.StatusRaised {
		po.CompletionTime = rt.U64(tag + ".completion")
	}
	return po
}

func decisionsEq(a, b enttypes.PurchaseOrderDecisions) bool {
	if len(a) != len(b) {
		return false
	}
	eq := true
	for i := range a {
		eq = rt.And(eq, a[i] == b[i])
	}
	return eq
}

func orderEq(a, b enttypes.EnterpriseUndPurchaseOrder) bool {
	return rt.And(rt.And(rt.And(a.Id == b.Id, a.Purchaser == b.Purchaser), rt.And(a.Amount.Denom == b.Amount.Denom, rt.IntEq(a.Amount.Amount, b.Amount.Amount))),
		rt.And(rt.And(a.Status == b.Status, a.RaiseTime == b.RaiseTime), rt.And(a.CompletionTime == b.CompletionTime, decisionsEq(a.Decisions, b.Decisions))))
}

// entBooks: locked/spent books satisfying INV-E5 for two explicit accounts plus a symbolic
// remainder standing for every other account.
type entBooks struct {
	Locked, Spent   [2]sdk.Int
	OtherLocked     sdk.Int
	OtherSpent      sdk.Int
	HasLockedRecord [2]bool
}

func setupBooks(ee *EntEnv) entBooks { return setupBooksOpt(ee, true) }

// setupBooksOpt: withAbsent also explores the state in which the accounts have no records yet.
func setupBooksOpt(ee *EntEnv, withAbsent bool) entBooks {
	var b entBooks
	k, ctx := ee.K, ee.Ctx
	b.OtherLocked = rt.BigInt("otherLocked", 0, 128)
	b.OtherSpent = rt.BigInt("otherSpent", 0, 128)
	totalLocked, totalSpent := b.OtherLocked, b.OtherSpent
	// either both accounts have locked/spent records, or neither has one (reads as zero)
	has := !withAbsent || rt.Choose(2) == 0
	for i := 0; i < 2; i++ {
		tag := "acc" + string(rune('0'+i))
		b.Locked[i] = rt.BigInt(tag+".locked", 0, 128)
		b.Spent[i] = rt.BigInt(tag+".spent", 0, 128)
		if has {
			b.HasLockedRecord[i] = true
			_ = k.SetLockedUndForAccount(ctx, enttypes.LockedUnd{Owner: Addr(i).String(), Amount: sdk.NewCoin("nund", b.Locked[i])})
			_ = k.SetSpentEFUNDForAccount(ctx, enttypes.SpentEFUND{Owner: Addr(i).String(), Amount: sdk.NewCoin("nund", b.Spent[i])})
		} else {
			rt.Assume(rt.And(rt.IntEq(b.Locked[i], sdk.ZeroInt()), rt.IntEq(b.Spent[i], sdk.ZeroInt())))
		}
		totalLocked = totalLocked.Add(b.Locked[i])
		totalSpent = totalSpent.Add(b.Spent[i])
	}
	_ = k.SetTotalLockedUnd(ctx, sdk.NewCoin("nund", totalLocked))
	_ = k.SetTotalSpentEFUND(ctx, sdk.NewCoin("nund", totalSpent))
	ee.Bank.Fund(ee.Escrow, "nund", totalLocked)
	return b
}

// booksBalanced: INV-E5 on the current state, given the expected per-account figures.
func booksBalanced(ee *EntEnv, b entBooks, locked0, locked1, spent0, spent1 sdk.Int) bool {
	k, ctx := ee.K, ee.Ctx
	tl := k.GetTotalLockedUnd(ctx)
	ts := k.GetTotalSpentEFUND(ctx)
	sumL := b.OtherLocked.Add(locked0).Add(locked1)
	sumS := b.OtherSpent.Add(spent0).Add(spent1)
	return rt.And(rt.And(rt.IntEq(tl.Amount, sumL), rt.IntEq(ee.Bank.Bal(ee.Escrow, "nund"), sumL)),
		rt.And(rt.IntEq(ts.Amount, sumS), rt.And(tl.Denom == "nund", ts.Denom == "nund")))
}

// ---------- C03: raise ----------

// H_C03_Raise: UndPurchaseOrder from any account of the pool, any coin.
func H_C03_Raise() {
	now := AnyBlockTime("now")
	ee := NewEntEnv(now, false)
	k, ctx := ee.K, ee.Ctx
	highest := rt.U64("highest")
	rt.Assume(rt.And(highest >= 1, highest < 18446744073709551615))
	k.SetHighestPurchaseOrderID(ctx, highest)
	// whitelist: actor 0 possibly, actor 1 possibly
	wl0, wl1 := rt.Choose(2) == 1, rt.Choose(2) == 1
	if wl0 {
		_ = k.AddAddressToWhitelist(ctx, Addr(0))
	}
	if wl1 {
		_ = k.AddAddressToWhitelist(ctx, Addr(1))
	}
	// an existing raised order
	oldID := rt.U64("old.id")
	rt.Assume(rt.And(oldID >= 1, oldID < highest))
	old := anyOrder("old", oldID, Addr(1), enttypes.StatusRaised, 1, uint64(now.Unix()))
	_ = k.SetPurchaseOrder(ctx, old)
	k.AddPoToRaisedQueue(ctx, oldID)
	who := rt.Choose(2)
	denom := "nund"
	if rt.Choose(2) == 1 {
		denom = "other"
	}
	amt := rt.BigInt("m.amount", -5, 128)
	msg := &enttypes.MsgUndPurchaseOrder{Purchaser: Addr(who).String(), Amount: sdk.Coin{Denom: denom, Amount: amt}}
	rt.Assume(msg.ValidateBasic() == nil)
	snap := ee.MS.Snapshot()
	bankWrites := ee.Bank.Sends
	srv := entkeeper.NewMsgServerImpl(k)
	var err error
	var res *enttypes.MsgUndPurchaseOrderResponse
	panicked := rt.Catch(func() { res, err = srv.UndPurchaseOrder(sdk.WrapSDKContext(ctx), msg) })
	rt.Assert("C14.raise-no-panic", !panicked)
	if panicked {
		return
	}
	whitelisted := (who == 0 && wl0) || (who == 1 && wl1)
	expectOK := rt.And(whitelisted, rt.And(denom == "nund", rt.IntLt(sdk.ZeroInt(), amt)))
	rt.Assert("C03.raise-iff-whitelisted-denom-positive", rt.Iff(err == nil, expectOK))
	rt.Assert("C13.raise-only-by-purchaser", rt.Implies(err == nil, whitelisted))
	rt.Assert("C02.raise-mints-nothing", rt.And(rt.IntEq(ee.Bank.SupplyOf("nund"), sdk.ZeroInt()), ee.Bank.Sends == bankWrites))
	if err != nil {
		rt.Reach("raise-rejected")
		rt.Assert("C03+C13+C14.rejected-raise-changes-nothing", ee.MS.SameAs(snap))
		return
	}
	rt.Reach("raise-ok")
	rt.Assert("C03.raise-id=next", res.PurchaseOrderId == highest)
	po, found := k.GetPurchaseOrder(ctx, highest)
	want := enttypes.EnterpriseUndPurchaseOrder{Id: highest, Purchaser: msg.Purchaser, Amount: msg.Amount, Status: enttypes.StatusRaised, RaiseTime: uint64(now.Unix())}
	rt.Assert("C03.raise-stored", rt.And(found, orderEq(po, want)))
	rt.Assert("C03.raise-queued", rt.And(k.PurchaseOrderIsInRaisedQueue(ctx, highest), !k.PurchaseOrderIsInAcceptedQueue(ctx, highest)))
	hi, _ := k.GetHighestPurchaseOrderID(ctx)
	rt.Assert("C03.raise-highest+1", hi == highest+1)
	op, of := k.GetPurchaseOrder(ctx, oldID)
	rt.Assert("C03.raise-leaves-others", rt.And(rt.And(of, orderEq(op, old)), k.PurchaseOrderIsInRaisedQueue(ctx, oldID)))
	rt.Assert("C05.raise-leaves-locked", rt.And(rt.IntEq(k.GetLockedUndAmountForAccount(ctx, Addr(who)).Amount, sdk.ZeroInt()), rt.IntEq(k.GetTotalLockedUnd(ctx).Amount, sdk.ZeroInt())))
}

// ---------- C03: decide ----------

// H_C03_Decide: ProcessUndPurchaseOrder on an order in any status with k <= 2 prior decisions;
// the signer string is the canonical or the upper-case bech32 spelling of a pool signer, or a
// non-signer.
func H_C03_Decide() {
	now := AnyBlockTime("now")
	ee := NewEntEnvLong(NewEnv(now, false), 0, rt.Choose(2) == 1)
	k, ctx := ee.K, ee.Ctx
	highest := rt.U64("highest")
	id := rt.U64("po.id")
	rt.Assume(rt.And(id >= 1, id < highest))
	k.SetHighestPurchaseOrderID(ctx, highest)
	status := enttypes.PurchaseOrderStatus(1 + rt.Choose(4)) // raised, accepted, rejected, completed
	maxDec := ee.NPool
	if maxDec > 2 {
		maxDec = 2
	}
	po := anyOrder("po", id, Addr(0), status, maxDec, uint64(now.Unix()))
	_ = k.SetPurchaseOrder(ctx, po)
	if status == enttypes.StatusRaised {
		k.AddPoToRaisedQueue(ctx, id)
	}
	if status == enttypes.StatusAccepted {
		k.AddPoToAcceptedQueue(ctx, id)
	}
	// the deciding account: pool signer 0..2 (authorised iff index < NSign) or actor 0 (never)
	who := rt.Choose(4)
	var signerAddr sdk.AccAddress
	authorised := false
	if who < 3 {
		signerAddr = Signer(who)
		authorised = who < ee.NPool
	} else {
		signerAddr = Addr(0)
	}
	signerStr := signerAddr.String()
	if rt.Choose(2) == 1 {
		signerStr = strings.ToUpper(signerStr) // bech32 also accepts the all-upper-case spelling
	}
	decision := enttypes.PurchaseOrderStatus(rt.U32("m.decision"))
	rt.Assume(decision <= 4)
	target := rt.U64("m.id")
	msg := &enttypes.MsgProcessUndPurchaseOrder{PurchaseOrderId: target, Decision: decision, Signer: signerStr}
	rt.Assume(msg.ValidateBasic() == nil)
	snap := ee.MS.Snapshot()
	srv := entkeeper.NewMsgServerImpl(k)
	var err error
	panicked := rt.Catch(func() { _, err = srv.ProcessUndPurchaseOrder(sdk.WrapSDKContext(ctx), msg) })
	rt.Assert("C14.decide-no-panic", !panicked)
	if panicked {
		return
	}
	alreadyDecided := who < 3 && who < len(po.Decisions) // decisions are by pool signers 0..len-1
	validDecision := rt.Or(decision == enttypes.StatusAccepted, decision == enttypes.StatusRejected)
	expectOK := rt.And(rt.And(authorised, target == id), rt.And(rt.And(status == enttypes.StatusRaised, !alreadyDecided), validDecision))
	rt.Assert("C13.decide-only-authorised-signer", rt.Implies(err == nil, authorised))
	rt.Assert("C02+C03.decide-only-raised", rt.Implies(err == nil, rt.And(target == id, status == enttypes.StatusRaised)))
	rt.Assert("C02+C03.decide-at-most-once-per-signer", rt.Implies(err == nil, !alreadyDecided))
	rt.Assert("C02+C03.decide-accepted-iff-entitled", rt.Iff(err == nil, expectOK))
	if err != nil {
		rt.Reach("decide-rejected")
		rt.Assert("C03+C13+C14.rejected-decision-changes-nothing", ee.MS.SameAs(snap))
		return
	}
	rt.Reach("decide-ok")
	np, _ := k.GetPurchaseOrder(ctx, id)
	want := po
	want.Decisions = append(append(enttypes.PurchaseOrderDecisions{}, po.Decisions...),
		enttypes.PurchaseOrderDecision{Signer: signerAddr.String(), Decision: decision, DecisionTime: uint64(now.Unix())})
	rt.Assert("C02+C03.decision-appended-only", orderEq(np, want))
	rt.Assert("C03.decide-keeps-queues", rt.And(k.PurchaseOrderIsInRaisedQueue(ctx, id), !k.PurchaseOrderIsInAcceptedQueue(ctx, id)))
	rt.Assert("C02.decide-mints-nothing", rt.IntEq(ee.Bank.SupplyOf("nund"), sdk.ZeroInt()))
}

// ---------- C03: whitelist ----------

func H_C03_Whitelist() {
	now := AnyBlockTime("now")
	ee := NewEntEnvLong(NewEnv(now, false), 0, rt.Choose(2) == 1)
	k, ctx := ee.K, ee.Ctx
	wl0, wl1 := rt.Choose(2) == 1, rt.Choose(2) == 1
	if wl0 {
		_ = k.AddAddressToWhitelist(ctx, Addr(0))
	}
	if wl1 {
		_ = k.AddAddressToWhitelist(ctx, Addr(1))
	}
	who := rt.Choose(4)
	var signerAddr sdk.AccAddress
	authorised := false
	if who < 3 {
		signerAddr = Signer(who)
		authorised = who < ee.NPool
	} else {
		signerAddr = Addr(0)
	}
	action := enttypes.WhitelistAction(rt.U32("m.action"))
	rt.Assume(action <= 3)
	msg := &enttypes.MsgWhitelistAddress{Address: Addr(0).String(), Signer: signerAddr.String(), Action: action}
	rt.Assume(msg.ValidateBasic() == nil)
	snap := ee.MS.Snapshot()
	srv := entkeeper.NewMsgServerImpl(k)
	var err error
	panicked := rt.Catch(func() { _, err = srv.WhitelistAddress(sdk.WrapSDKContext(ctx), msg) })
	rt.Assert("C14.whitelist-no-panic", !panicked)
	if panicked {
		return
	}
	isAdd, isRemove := action == enttypes.WhitelistActionAdd, action == enttypes.WhitelistActionRemove
	expectOK := rt.And(authorised, rt.Or(rt.And(isAdd, !wl0), rt.And(isRemove, wl0)))
	rt.Assert("C13.whitelist-only-authorised-signer", rt.Implies(err == nil, authorised))
	rt.Assert("C03.whitelist-accepted-iff", rt.Iff(err == nil, expectOK))
	if err != nil {
		rt.Reach("whitelist-rejected")
		rt.Assert("C03+C13+C14.rejected-whitelist-changes-nothing", ee.MS.SameAs(snap))
		return
	}
	rt.Reach("whitelist-ok")
	rt.Assert("C03.whitelist-effect", rt.Iff(k.AddressIsWhitelisted(ctx, Addr(0)), isAdd))
	rt.Assert("C03.whitelist-leaves-others", k.AddressIsWhitelisted(ctx, Addr(1)) == wl1)
}

// ---------- C03/C02/C04/C14: begin blocker ----------

// tallyOracle: the statement's rule for one raised order: (rejected?, accepted?) as terms.
func tallyOracle(ee *EntEnv, po enttypes.EnterpriseUndPurchaseOrder, nowSec uint64) (bool, bool) {
	acc, rej := sdk.ZeroInt(), sdk.ZeroInt()
	for _, d := range po.Decisions {
		acc = rt.IteInt(d.Decision == enttypes.StatusAccepted, acc.AddRaw(1), acc)
		rej = rt.IteInt(d.Decision == enttypes.StatusRejected, rej.AddRaw(1), rej)
	}
	min := rt.IntOfU64(ee.Params.MinAccepts)
	n := sdk.NewInt(int64(ee.NSign))
	stale := rt.And(rt.IntLe(rt.IntOfU64(ee.Params.DecisionTimeLimit), rt.IntSub(rt.IntOfU64(nowSec), rt.IntOfU64(po.RaiseTime))), rt.IntLt(acc, min))
	tooManyRejects := rt.IntLt(rt.IntSub(n, min), rej)
	rejected := rt.Or(stale, tooManyRejects)
	accepted := rt.And(!rejected, rt.IntLe(min, acc))
	return rejected, accepted
}

// H_C03_BeginBlock: BeginBlocker from an INV-E state with nr raised and na accepted orders
// (quick: 1+1, thorough: up to 2+2), one completed and one rejected order, locked books for the
// two purchasers plus remainder.
func H_C03_BeginBlock() {
	now := AnyBlockTime("now")
	ee := NewEntEnv(now, false)
	k, ctx := ee.K, ee.Ctx
	nowSec := uint64(now.Unix())
	maxQ := 1
	if rt.Thorough() {
		maxQ = 2
	}
	na := rt.Choose(maxQ + 1)
	nr := rt.Choose(3) // two raised orders also in the quick tier: tallies must not interfere
	// ids: strictly increasing symbolic ids, interleaved: a0 < r0 < a1 < r1 < done < rejd < highest
	var ids [6]uint64
	for i := range ids {
		ids[i] = rt.U64("id" + string(rune('0'+i)))
	}
	rt.Assume(ids[0] >= 1)
	for i := 1; i < 6; i++ {
		rt.Assume(ids[i-1] < ids[i])
	}
	highest := rt.U64("highest")
	rt.Assume(ids[5] < highest)
	k.SetHighestPurchaseOrderID(ctx, highest)
	books := setupBooks(ee)
	ee.Bank.AddBase(Addr(0))
	ee.Bank.AddBase(Addr(1))
	// decisions may stem from signers that governance has since removed from the signer set:
	// their number is independent of the current signer count
	maxDec := 2
	if rt.Thorough() {
		maxDec = 3
	}
	termDec := 0 // decisions carried by non-raised orders are not read by the blocker
	var accepted, raised [2]enttypes.EnterpriseUndPurchaseOrder
	for i := 0; i < na; i++ {
		accepted[i] = anyOrder("a"+string(rune('0'+i)), ids[2*i], Addr(rt.Choose(2)), enttypes.StatusAccepted, termDec, nowSec)
		_ = k.SetPurchaseOrder(ctx, accepted[i])
		k.AddPoToAcceptedQueue(ctx, accepted[i].Id)
	}
	for i := 0; i < nr; i++ {
		md := maxDec
		if i == 1 {
			md = maxDec - 1 // quick: 2+1 decisions, thorough: 3+2
		}
		raised[i] = anyOrder("r"+string(rune('0'+i)), ids[2*i+1], Addr(1), enttypes.StatusRaised, md, nowSec)
		_ = k.SetPurchaseOrder(ctx, raised[i])
		k.AddPoToRaisedQueue(ctx, raised[i].Id)
	}
	done := anyOrder("done", ids[4], Addr(0), enttypes.StatusCompleted, termDec, nowSec)
	rejd := anyOrder("rejd", ids[5], Addr(0), enttypes.StatusRejected, termDec, nowSec)
	_ = k.SetPurchaseOrder(ctx, done)
	_ = k.SetPurchaseOrder(ctx, rejd)
	supply0 := ee.Bank.SupplyOf("nund")
	bal0, bal1 := ee.Bank.Bal(Addr(0), "nund"), ee.Bank.Bal(Addr(1), "nund")

	// through the module's ABCI glue (what the module manager calls each block), then EndBlock
	am := enterprise.NewAppModule(nil, k, ee.Bank, ee.Bank, nil)
	panicked := rt.Catch(func() { am.BeginBlock(ctx, abci.RequestBeginBlock{}) })
	rt.Assert("C14.beginblock-no-panic", !panicked)
	if panicked {
		return
	}
	rt.Reach("beginblock-ok")
	afterBegin, bankAfterBegin := ee.MS.Snapshot(), ee.Bank.Clone()
	var updates []abci.ValidatorUpdate
	panickedEnd := rt.Catch(func() { updates = am.EndBlock(ctx, abci.RequestEndBlock{}) })
	rt.Assert("C14.endblock-no-panic-no-effect", rt.And(!panickedEnd, rt.And(len(updates) == 0, rt.And(ee.MS.SameAs(afterBegin), ee.Bank.SameAs(bankAfterBegin)))))
	// accepted(pre) -> completed(post), minted and locked exactly once
	minted := sdk.ZeroInt()
	add := [2]sdk.Int{sdk.ZeroInt(), sdk.ZeroInt()}
	for i := 0; i < na; i++ {
		po, _ := k.GetPurchaseOrder(ctx, accepted[i].Id)
		want := accepted[i]
		want.Status = enttypes.StatusCompleted
		rt.Assert("C02+C03.accepted-completed-next-block", orderEq(po, want))
		rt.Assert("INV.E2-completed-in-no-queue", rt.And(!k.PurchaseOrderIsInAcceptedQueue(ctx, want.Id), !k.PurchaseOrderIsInRaisedQueue(ctx, want.Id)))
		minted = minted.Add(want.Amount.Amount)
		if want.Purchaser == Addr(0).String() {
			add[0] = add[0].Add(want.Amount.Amount)
		} else {
			add[1] = add[1].Add(want.Amount.Amount)
		}
	}
	if na > 0 {
		rt.Reach("minted")
	}
	rt.Assert("C02.supply-grows-by-completed-orders-only", rt.IntEq(ee.Bank.SupplyOf("nund"), supply0.Add(minted)))
	rt.Assert("C02.nothing-burned", ee.Bank.Burned.IsZero())
	rt.Assert("C03+C04.locked-credited-exactly", rt.And(rt.IntEq(k.GetLockedUndAmountForAccount(ctx, Addr(0)).Amount, books.Locked[0].Add(add[0])),
		rt.IntEq(k.GetLockedUndAmountForAccount(ctx, Addr(1)).Amount, books.Locked[1].Add(add[1]))))
	rt.Assert("C04+C06+C14+C15+C17.books-balance", booksBalanced(ee, books, books.Locked[0].Add(add[0]), books.Locked[1].Add(add[1]), books.Spent[0], books.Spent[1]))
	rt.Assert("C05.mint-leaves-liquid-balance", rt.And(rt.IntEq(ee.Bank.Bal(Addr(0), "nund"), bal0), rt.IntEq(ee.Bank.Bal(Addr(1), "nund"), bal1)))
	rt.Assert("C04.spent-unchanged-by-mint", rt.And(rt.IntEq(k.GetSpentEFUNDAmountForAccount(ctx, Addr(0)).Amount, books.Spent[0]), rt.IntEq(k.GetSpentEFUNDAmountForAccount(ctx, Addr(1)).Amount, books.Spent[1])))
	// raised orders are tallied by the statement's rule; nothing accepted now is minted now
	for i := 0; i < nr; i++ {
		po, _ := k.GetPurchaseOrder(ctx, raised[i].Id)
		isRej, isAcc := tallyOracle(ee, raised[i], nowSec)
		want := raised[i]
		want.CompletionTime = po.CompletionTime
		want.Status = po.Status
		rt.Assert("C02+C03+C16.tally-by-rule", rt.And(rt.Iff(po.Status == enttypes.StatusRejected, isRej), rt.And(rt.Iff(po.Status == enttypes.StatusAccepted, isAcc),
			rt.Iff(po.Status == enttypes.StatusRaised, rt.And(!isRej, !isAcc)))))
		rt.Assert("C03.tally-touches-only-status", rt.And(orderEq(po, want), po.CompletionTime == rt.IteU64(po.Status == enttypes.StatusRaised, raised[i].CompletionTime, nowSec)))
		rt.Assert("INV.E2-queues-match-status", rt.And(k.PurchaseOrderIsInRaisedQueue(ctx, want.Id) == (po.Status == enttypes.StatusRaised),
			k.PurchaseOrderIsInAcceptedQueue(ctx, want.Id) == (po.Status == enttypes.StatusAccepted)))
		switch po.Status {
		case enttypes.StatusAccepted:
			rt.Reach("tally-accepted")
		case enttypes.StatusRejected:
			rt.Reach("tally-rejected")
		default:
			rt.Reach("tally-pending")
		}
	}
	// terminal orders never change
	d2, _ := k.GetPurchaseOrder(ctx, done.Id)
	r2, _ := k.GetPurchaseOrder(ctx, rejd.Id)
	rt.Assert("C03.terminal-orders-frozen", rt.And(orderEq(d2, done), orderEq(r2, rejd)))
	hi, _ := k.GetHighestPurchaseOrderID(ctx)
	rt.Assert("C03.beginblock-keeps-highest", hi == highest)
}

// H_C14_ParamsThenBeginBlock: governance replaces the enterprise parameters (any set accepted by
// UpdateParams, including a different denomination and a different signer set) between the
// acceptance of an order and the block that mints it; the begin blocker must not panic.
func H_C14_ParamsThenBeginBlock() {
	now := AnyBlockTime("now")
	ee := NewEntEnvOn(NewEnv(now, false), 0)
	k, ctx := ee.K, ee.Ctx
	nowSec := uint64(now.Unix())
	k.SetHighestPurchaseOrderID(ctx, 10)
	books := setupBooksOpt(ee, true)
	ee.Bank.AddBase(Addr(0))
	ee.Bank.AddBase(Addr(1))
	acc := anyOrder("a0", 3, Addr(rt.Choose(2)), enttypes.StatusAccepted, 0, nowSec)
	_ = k.SetPurchaseOrder(ctx, acc)
	k.AddPoToAcceptedQueue(ctx, 3)
	rsd := anyOrder("r0", 5, Addr(1), enttypes.StatusRaised, 1, nowSec)
	_ = k.SetPurchaseOrder(ctx, rsd)
	k.AddPoToRaisedQueue(ctx, 5)
	// new parameters: any denomination, 1..2 signers of the pool, symbolic thresholds
	newDenom := "nund"
	if rt.Choose(2) == 1 {
		newDenom = rt.Str("q.denom")
	}
	ns := 1 + rt.Choose(2)
	signers := Signer(0).String()
	if ns == 2 {
		signers = signers + "," + Signer(2).String()
	}
	p2 := enttypes.Params{EntSigners: signers, Denom: newDenom, MinAccepts: rt.U64("q.minAccepts"), DecisionTimeLimit: rt.U64("q.decisionLimit")}
	srv := entkeeper.NewMsgServerImpl(k)
	_, uerr := srv.UpdateParams(sdk.WrapSDKContext(ctx), &enttypes.MsgUpdateParams{Authority: Authority(), Params: p2})
	if uerr != nil {
		return
	}
	rt.Reach("params-updated")
	rt.Known("C14-denom-change-before-mint", newDenom != "nund")
	panicked := rt.Catch(func() { enterprise.BeginBlocker(ctx, k) })
	rt.Assert("C14.beginblock-no-panic-after-param-change", !panicked)
	if panicked {
		return
	}
	rt.Reach("beginblock-ok")
	po, _ := k.GetPurchaseOrder(ctx, 3)
	rt.Assert("C03.accepted-completed-despite-param-change", po.Status == enttypes.StatusCompleted)
	_ = books
}

// H_C16_EntValidate: enterprise Params.Validate() == nil iff the statement's rule: well-formed
// denomination, positive MinAccepts and DecisionTimeLimit, every listed signer well-formed, and
// at least MinAccepts signers. The signer list is one of several shapes (incl. surrounding
// whitespace, an empty element, a malformed address).
func H_C16_EntValidate() {
	A, B := Signer(0).String(), Signer(1).String()
	type shape struct {
		s         string
		n         int  // number of listed entries
		wellFormed bool // every entry decodes as written
	}
	shapes := []shape{{A, 1, true}, {A + "," + B, 2, true}, {A + ", " + B, 2, false}, {" " + A, 1, false}, {A + ",," + B, 3, false},
		{"", 0, false}, {A + ",und1notanaddress", 2, false}, {A + "," + B + "," + Signer(2).String(), 3, true}}
	sh := shapes[rt.Choose(len(shapes))]
	p := enttypes.Params{EntSigners: sh.s, Denom: rt.Str("v.denom"), MinAccepts: rt.U64("v.minAccepts"), DecisionTimeLimit: rt.U64("v.decisionLimit")}
	spec := rt.And(rt.And(sdk.ValidateDenom(p.Denom) == nil, rt.And(p.MinAccepts >= 1, p.DecisionTimeLimit >= 1)),
		rt.And(sh.wellFormed, rt.IntLe(rt.IntOfU64(p.MinAccepts), sdk.NewInt(int64(sh.n)))))
	rt.Assert("C16.ent-validate-iff-spec", rt.Iff(p.Validate() == nil, spec))
	rt.Assert("C16.ent-update-stateless-check-is-params-validity", rt.Iff((&enttypes.MsgUpdateParams{Authority: Authority(), Params: p}).ValidateBasic() == nil, spec))
	// the stored list is what the consumers use: every authorised signer they see is one of the listed entries
	if p.Validate() == nil {
		rt.Reach("valid")
		ee := NewEntEnvOn(NewEnv(AnyBlockTime("now"), false), 1)
		umsg := &enttypes.MsgUpdateParams{Authority: Authority(), Params: p}
		rt.Assert("C16.ent-valid-update-passes-the-stateless-check", umsg.ValidateBasic() == nil)
		_, err := entkeeper.NewMsgServerImpl(ee.K).UpdateParams(sdk.WrapSDKContext(ee.Ctx), umsg)
		rt.Assert("C16.ent-valid-update-accepted", err == nil)
		usable := len(ee.K.GetParamEntSignersAsAddressArray(ee.Ctx))
		rt.Assert("C16.ent-usable-signers>=min-accepts", rt.IntLe(rt.IntOfU64(p.MinAccepts), sdk.NewInt(int64(usable))))
	}
}

// H_C05_MintSpendable: completing a purchase order never increases the purchaser's spendable
// balance — for a base account and for a vesting account (symbolic still-vesting amount and
// delegation bookkeeping).
func H_C05_MintSpendable() {
	now := AnyBlockTime("now")
	ee := NewEntEnvOn(NewEnv(now, false), 1)
	k, ctx := ee.K, ee.Ctx
	nowSec := uint64(now.Unix())
	k.SetHighestPurchaseOrderID(ctx, 10)
	books := setupBooksOpt(ee, true)
	liquid := rt.BigInt("purchaser.liquid", 0, 128)
	ee.Bank.Fund(Addr(0), "nund", liquid)
	vesting := rt.Choose(2) == 1
	if vesting {
		v := rt.BigInt("purchaser.vesting", 1, 128)
		dv := rt.BigInt("purchaser.delegatedVesting", 0, 128)
		df := rt.BigInt("purchaser.delegatedFree", 0, 128)
		rt.Assume(rt.IntLe(dv, v)) // BaseVestingAccount: delegated vesting never exceeds original vesting
		ee.Bank.AddVesting(Addr(0), sdk.Coins{sdk.NewCoin("nund", v)}, coinsOf("nund", dv), coinsOf("nund", df))
	} else {
		ee.Bank.AddBase(Addr(0))
	}
	ee.Bank.AddBase(Addr(1))
	acc := anyOrder("a0", 3, Addr(0), enttypes.StatusAccepted, 0, nowSec)
	_ = k.SetPurchaseOrder(ctx, acc)
	k.AddPoToAcceptedQueue(ctx, 3)
	before := ee.Bank.SpendableCoins(ctx, Addr(0)).AmountOf("nund")
	panicked := rt.Catch(func() { enterprise.BeginBlocker(ctx, k) })
	rt.Assert("C14.beginblock-no-panic", !panicked)
	if panicked {
		return
	}
	rt.Reach("minted")
	after := ee.Bank.SpendableCoins(ctx, Addr(0)).AmountOf("nund")
	rt.Known("C05-vesting-purchaser-spendable-grows", vesting)
	rt.Assert("C05.mint-never-increases-spendable", rt.IntLe(after, before))
	rt.Assert("C03+C04.locked-credited-exactly", rt.IntEq(k.GetLockedUndAmountForAccount(ctx, Addr(0)).Amount, books.Locked[0].Add(acc.Amount.Amount)))
}

func coinsOf(denom string, amt sdk.Int) sdk.Coins {
	if rt.IntEq(amt, sdk.ZeroInt()) {
		return sdk.Coins{}
	}
	return sdk.Coins{sdk.NewCoin(denom, amt)}
}

// H_C14_ModuleHooks: the ABCI block hooks of the stream, WRKChain and BEACON modules (called by the
// module manager in every block) neither panic nor touch any state, whatever the state is.
func H_C14_ModuleHooks() {
	now := AnyBlockTime("now")
	switch rt.Choose(3) {
	case 0:
		se := NewStreamEnv(now)
		_ = se.K.SetParams(se.Ctx, streamtypes.Params{ValidatorFee: AnyValidatorFee("valFee")})
		setupStream(se, "nund")
		snap, bank := se.MS.Snapshot(), se.Bank.Clone()
		am := stream.NewAppModule(nil, se.K, se.Bank, se.Bank)
		var ups []abci.ValidatorUpdate
		panicked := rt.Catch(func() {
			am.BeginBlock(se.Ctx, abci.RequestBeginBlock{})
			ups = am.EndBlock(se.Ctx, abci.RequestEndBlock{})
		})
		rt.Assert("C14.stream-hooks-no-panic-no-effect", rt.And(!panicked, rt.And(len(ups) == 0, rt.And(se.MS.SameAs(snap), se.Bank.SameAs(bank)))))
	case 1:
		we := NewWrkEnv(now)
		setupWrk(we, 1)
		snap := we.MS.Snapshot()
		am := wrkchain.NewAppModule(nil, we.K, we.Bank, we.Bank, nil)
		var ups []abci.ValidatorUpdate
		panicked := rt.Catch(func() {
			am.BeginBlock(we.Ctx, abci.RequestBeginBlock{})
			ups = am.EndBlock(we.Ctx, abci.RequestEndBlock{})
		})
		rt.Assert("C14.wrkchain-hooks-no-panic-no-effect", rt.And(!panicked, rt.And(len(ups) == 0, we.MS.SameAs(snap))))
	default:
		be := NewBeaconEnv(now)
		setupBeacon(be, 1)
		snap := be.MS.Snapshot()
		am := beacon.NewAppModule(nil, be.K, be.Bank, be.Bank, nil)
		var ups []abci.ValidatorUpdate
		panicked := rt.Catch(func() {
			am.BeginBlock(be.Ctx, abci.RequestBeginBlock{})
			ups = am.EndBlock(be.Ctx, abci.RequestEndBlock{})
		})
		rt.Assert("C14.beacon-hooks-no-panic-no-effect", rt.And(!panicked, rt.And(len(ups) == 0, be.MS.SameAs(snap))))
	}
	rt.Reach("end")
}
