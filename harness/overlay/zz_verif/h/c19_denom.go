package h

import (
	sdk "github.com/cosmos/cosmos-sdk/types"

	undtypes "github.com/unification-com/mainchain/types"
	"github.com/unification-com/mainchain/zz_verif/rt"
)

var e9 = sdk.NewInt(1000000000)
var e18 = sdk.NewIntFromUint64(1000000000000000000)

// anyDecimal: a decimal amount string with at most nine fractional digits, |value| < 10^30
// (negative amounts included). The string is symbolic; its numeric value is whatever the SDK's own
// decimal parser reads (character-level parsing is outside the claim), returned as the integer
// value × 10^9.
func anyDecimal(name string, allowNeg bool) (string, sdk.Int) {
	s := rt.Str(name)
	d, err := sdk.NewDecFromStr(s)
	rt.Assume(err == nil)
	raw := rt.DecRawOf(d) // value × 10^18
	rt.Assume(rt.IntEq(rt.IntMod(raw, e9), sdk.ZeroInt()))
	lim := e18.Mul(e18).Mul(sdk.NewInt(1000000000000)) // 10^30 × 10^18
	rt.Assume(rt.And(rt.IntLt(raw, lim), rt.IntLt(lim.Neg(), raw)))
	if !allowNeg {
		rt.Assume(rt.IntLe(sdk.ZeroInt(), raw))
	}
	return s, rt.IntDivFloor(raw, e9)
}

// signedStr: decimal rendering of a possibly negative integer.
func signedStr(n sdk.Int) string {
	if rt.IntLt(n, sdk.ZeroInt()) {
		return "-" + rt.IntStr(n.Neg())
	}
	return rt.IntStr(n)
}

// fundStr: n nund as a FUND amount with nine decimals (sign, integer part, ".", nine digits).
func fundStr(n sdk.Int) string {
	sign := ""
	if rt.IntLt(n, sdk.ZeroInt()) {
		sign = "-"
		n = n.Neg()
	}
	return sign + rt.IntStr(rt.IntDivFloor(n, e9)) + "." + rt.Pad9(rt.IntMod(n, e9))
}

// H_C19_FundToNund: nund = FUND × 10^9 exactly.
func H_C19_FundToNund() {
	s, units := anyDecimal("amount", true) // units = FUND value × 10^9 = the exact nund amount
	res, err := undtypes.ConvertUndDenomination(s, "fund", "nund")
	rt.Assert("C19.fund-to-nund-ok", err == nil)
	if err != nil {
		return
	}
	rt.Assert("C19.fund-to-nund-exact", rt.StrEq(res, signedStr(units)+"nund"))
	rt.Reach("end")
}

// H_C19_NundToFund: FUND = nund / 10^9 printed with nine decimals (whole nund amounts).
func H_C19_NundToFund() {
	// negative nund amounts are exercised through H_C19_RoundTrip (thorough tier): with a fully
	// symbolic input string the negative branch of the rounding was not decided within 60 s by any
	// of the three solvers, so it is outside this harness' claim
	s, units := anyDecimal("amount", false)
	rt.Assume(rt.IntEq(rt.IntMod(units, e9), sdk.ZeroInt())) // a whole number of nund
	n := rt.IntDivFloor(units, e9)
	res, err := undtypes.ConvertUndDenomination(s, "nund", "fund")
	rt.Assert("C19.nund-to-fund-ok", err == nil)
	if err != nil {
		return
	}
	want := fundStr(n) + "fund"
	rt.Assert("C19.nund-to-fund-exact-nine-decimals", rt.StrEq(res, want))
	rt.Reach("end")
}

// H_C19_RoundTrip: FUND -> nund -> FUND returns the original amount (as a nine-decimal string).
func H_C19_RoundTrip() {
	s, units := anyDecimal("amount", rt.Thorough())
	r1, err1 := undtypes.ConvertUndDenomination(s, "fund", "nund")
	rt.Assert("C19.roundtrip-step1-ok", err1 == nil)
	if err1 != nil {
		return
	}
	nundStr := signedStr(units)
	rt.Assert("C19.roundtrip-step1-exact", rt.StrEq(r1, nundStr+"nund"))
	r2, err2 := undtypes.ConvertUndDenomination(nundStr, "nund", "fund")
	rt.Assert("C19.roundtrip-step2-ok", err2 == nil)
	if err2 != nil {
		return
	}
	rt.Assert("C19.roundtrip-returns-original", rt.StrEq(r2, fundStr(units)+"fund"))
	rt.Assert("C19.same-denom-identity", func() bool { r, e := undtypes.ConvertUndDenomination(s, "fund", "fund"); return e == nil && r == s+"fund" }())
	rt.Reach("end")
}

// H_C19_NundToFundSigned: whole nund amounts of either sign, given in canonical decimal form:
// FUND = nund / 10^9 with nine decimals and the sign preserved (also for |amount| < 1 FUND).
func H_C19_NundToFundSigned() {
	m := rt.BigInt("magnitude", 0, 129)
	n := m
	if rt.Bool("negative") {
		rt.Assume(rt.IntLt(sdk.ZeroInt(), m))
		n = m.Neg()
	}
	res, err := undtypes.ConvertUndDenomination(signedStr(n), "nund", "fund")
	rt.Assert("C19.signed-nund-to-fund-ok", err == nil)
	if err != nil {
		return
	}
	rt.Assert("C19.signed-nund-to-fund-exact", rt.StrEq(res, fundStr(n)+"fund"))
	rt.Reach("end")
}
