package h

import (
	"bytes"

	sdk "github.com/cosmos/cosmos-sdk/types"

	beacontypes "github.com/unification-com/mainchain/x/beacon/types"
	enttypes "github.com/unification-com/mainchain/x/enterprise/types"
	streamtypes "github.com/unification-com/mainchain/x/stream/types"
	"github.com/unification-com/mainchain/zz_verif/rt"
)

// H_C18_BeaconKeys: BEACON store keys for all 64-bit ids.
func H_C18_BeaconKeys() {
	id1, id2 := rt.U64("id1"), rt.U64("id2")
	t1, t2 := rt.U64("t1"), rt.U64("t2")
	rt.Assert("beacon-key-injective", rt.Implies(bytes.Equal(beacontypes.BeaconKey(id1), beacontypes.BeaconKey(id2)), id1 == id2))
	rt.Assert("limit-key-injective", rt.Implies(bytes.Equal(beacontypes.BeaconStorageLimitKey(id1), beacontypes.BeaconStorageLimitKey(id2)), id1 == id2))
	rt.Assert("timestamp-key-injective", rt.Implies(bytes.Equal(beacontypes.BeaconTimestampKey(id1, t1), beacontypes.BeaconTimestampKey(id2, t2)), rt.And(id1 == id2, t1 == t2)))
	rt.Assert("sections-disjoint-1", !bytes.Equal(beacontypes.BeaconKey(id1), beacontypes.BeaconStorageLimitKey(id2)))
	rt.Assert("sections-disjoint-2", !bytes.Equal(beacontypes.BeaconKey(id1), beacontypes.BeaconAllTimestampsKey(id2)))
	rt.Assert("sections-disjoint-3", !bytes.HasPrefix(beacontypes.BeaconKey(id1), beacontypes.HighestBeaconIDKey))
	rt.Assert("sections-disjoint-4", !bytes.HasPrefix(beacontypes.BeaconTimestampKey(id1, t1), beacontypes.ParamsKey))
	rt.Assert("sections-disjoint-5", !bytes.HasPrefix(beacontypes.BeaconTimestampKey(id1, t1), beacontypes.RegisteredBeaconPrefix))
	rt.Assert("timestamp-prefix-owner", rt.Implies(bytes.HasPrefix(beacontypes.BeaconTimestampKey(id1, t1), beacontypes.BeaconAllTimestampsKey(id2)), id1 == id2))
	rt.Assert("timestamp-order", rt.Iff(bytes.Compare(beacontypes.BeaconTimestampKey(id1, t1), beacontypes.BeaconTimestampKey(id1, t2)) < 0, t1 < t2))
	rt.Assert("beacon-order", rt.Iff(bytes.Compare(beacontypes.BeaconKey(id1), beacontypes.BeaconKey(id2)) < 0, id1 < id2))
	rt.Assert("id-roundtrip", rt.And(beacontypes.GetBeaconIDFromBytes(beacontypes.GetBeaconIDBytes(id1)) == id1, beacontypes.GetTimestampIDFromBytes(beacontypes.GetTimestampIDBytes(t1)) == t1))
	rt.Reach("end")
}

var addrLens = []int{1, 20, 255}
var addrLensThorough = []int{1, 2, 19, 20, 21, 32, 254, 255}

func anyAddrLen() int {
	if rt.Thorough() {
		return addrLensThorough[rt.Choose(len(addrLensThorough))]
	}
	return addrLens[rt.Choose(len(addrLens))]
}

// H_C18_EntKeys: enterprise store keys: 64-bit order ids, addresses of several lengths with
// symbolic bytes (quick: 1/20/255 bytes, thorough: 1,2,19,20,21,32,254,255).
func H_C18_EntKeys() {
	id1, id2 := rt.U64("id1"), rt.U64("id2")
	rt.Assert("order-key-injective", rt.Implies(bytes.Equal(enttypes.PurchaseOrderKey(id1), enttypes.PurchaseOrderKey(id2)), id1 == id2))
	rt.Assert("raised-key-injective", rt.Implies(bytes.Equal(enttypes.RaisedQueueStoreKey(id1), enttypes.RaisedQueueStoreKey(id2)), id1 == id2))
	rt.Assert("accepted-key-injective", rt.Implies(bytes.Equal(enttypes.AcceptedQueueStoreKey(id1), enttypes.AcceptedQueueStoreKey(id2)), id1 == id2))
	rt.Assert("queues-disjoint", rt.And(!bytes.Equal(enttypes.RaisedQueueStoreKey(id1), enttypes.AcceptedQueueStoreKey(id2)),
		rt.And(!bytes.Equal(enttypes.RaisedQueueStoreKey(id1), enttypes.PurchaseOrderKey(id2)), !bytes.Equal(enttypes.AcceptedQueueStoreKey(id1), enttypes.PurchaseOrderKey(id2)))))
	rt.Assert("order-order", rt.Iff(bytes.Compare(enttypes.PurchaseOrderKey(id1), enttypes.PurchaseOrderKey(id2)) < 0, id1 < id2))
	rt.Assert("raised-order", rt.Iff(bytes.Compare(enttypes.RaisedQueueStoreKey(id1), enttypes.RaisedQueueStoreKey(id2)) < 0, id1 < id2))
	rt.Assert("queue-key-roundtrip", rt.And(enttypes.SplitRaisedQueueKey(enttypes.RaisedQueueStoreKey(id1)) == id1, enttypes.SplitAcceptedQueueKey(enttypes.AcceptedQueueStoreKey(id1)) == id1))
	for _, single := range [][]byte{enttypes.HighestPurchaseOrderIDKey, enttypes.ParamsKey, enttypes.TotalLockedUndKey, enttypes.TotalSpentEFUNDKey} {
		rt.Assert("singletons-outside-sections", rt.And(!bytes.HasPrefix(enttypes.PurchaseOrderKey(id1), single), rt.And(!bytes.HasPrefix(enttypes.RaisedQueueStoreKey(id1), single), !bytes.HasPrefix(enttypes.AcceptedQueueStoreKey(id1), single))))
	}
	la, lb := anyAddrLen(), anyAddrLen()
	a, b := sdk.AccAddress(rt.Bytes("a", la)), sdk.AccAddress(rt.Bytes("b", lb))
	same := bytes.Equal(a, b)
	rt.Assert("locked-key-injective", rt.Implies(bytes.Equal(enttypes.LockedUndAddressStoreKey(a), enttypes.LockedUndAddressStoreKey(b)), same))
	rt.Assert("spent-key-injective", rt.Implies(bytes.Equal(enttypes.SpentEFUNDAddressStoreKey(a), enttypes.SpentEFUNDAddressStoreKey(b)), same))
	rt.Assert("whitelist-key-injective", rt.Implies(bytes.Equal(enttypes.WhitelistAddressStoreKey(a), enttypes.WhitelistAddressStoreKey(b)), same))
	rt.Assert("address-sections-disjoint", rt.And(!bytes.Equal(enttypes.LockedUndAddressStoreKey(a), enttypes.SpentEFUNDAddressStoreKey(b)),
		rt.And(!bytes.Equal(enttypes.LockedUndAddressStoreKey(a), enttypes.WhitelistAddressStoreKey(b)), !bytes.Equal(enttypes.SpentEFUNDAddressStoreKey(a), enttypes.WhitelistAddressStoreKey(b)))))
	rt.Assert("address-vs-id-sections-disjoint", rt.And(!bytes.Equal(enttypes.LockedUndAddressStoreKey(a), enttypes.PurchaseOrderKey(id1)),
		rt.And(!bytes.Equal(enttypes.WhitelistAddressStoreKey(a), enttypes.RaisedQueueStoreKey(id1)), !bytes.Equal(enttypes.SpentEFUNDAddressStoreKey(a), enttypes.AcceptedQueueStoreKey(id1)))))
	rt.Reach("end")
}

// H_C18_StreamKeys: stream keys over addresses of several lengths with symbolic bytes: injective,
// parse round trip, receiver-prefix ownership (what AllStreamsForReceiver iterates), and the sender
// extraction used by that query.
func H_C18_StreamKeys() {
	lr1, ls1, lr2, ls2 := anyAddrLen(), anyAddrLen(), anyAddrLen(), anyAddrLen()
	r1, s1 := sdk.AccAddress(rt.Bytes("r1", lr1)), sdk.AccAddress(rt.Bytes("s1", ls1))
	r2, s2 := sdk.AccAddress(rt.Bytes("r2", lr2)), sdk.AccAddress(rt.Bytes("s2", ls2))
	k1, k2 := streamtypes.GetStreamKey(r1, s1), streamtypes.GetStreamKey(r2, s2)
	rt.Assert("stream-key-injective", rt.Implies(bytes.Equal(k1, k2), rt.And(bytes.Equal(r1, r2), bytes.Equal(s1, s2))))
	pr, ps := streamtypes.AddressesFromStreamKey(k1)
	rt.Assert("stream-key-parse-roundtrip", rt.And(bytes.Equal(pr, r1), bytes.Equal(ps, s1)))
	rt.Assert("receiver-prefix-owner", rt.Implies(bytes.HasPrefix(k1, streamtypes.GetStreamsByReceiverKey(r2)), bytes.Equal(r1, r2)))
	rest := k1[len(streamtypes.GetStreamsByReceiverKey(r1)):]
	rt.Assert("sender-from-receiver-store-key", bytes.Equal(streamtypes.FirstAddressFromStreamStoreKey(rest), s1))
	rt.Assert("stream-section-vs-params", rt.And(!bytes.HasPrefix(k1, streamtypes.ParamsKey), bytes.HasPrefix(k1, streamtypes.StreamKeyPrefix)))
	rt.Reach("end")
}
