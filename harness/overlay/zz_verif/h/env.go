package h

import (
	"time"

	storetypes "github.com/cosmos/cosmos-sdk/store/types"
	sdk "github.com/cosmos/cosmos-sdk/types"
	authtypes "github.com/cosmos/cosmos-sdk/x/auth/types"
	govtypes "github.com/cosmos/cosmos-sdk/x/gov/types"

	streamkeeper "github.com/unification-com/mainchain/x/stream/keeper"
	streamtypes "github.com/unification-com/mainchain/x/stream/types"
	"github.com/unification-com/mainchain/zz_verif/model"
	"github.com/unification-com/mainchain/zz_verif/rt"
)

// Addr returns the i-th member of the concrete actor pool. The module code only copies,
// length-prefixes, bech32-encodes and compares addresses for equality, so a pool of distinct
// concrete addresses covers every equality pattern among actors (data independence; the key
// builders themselves are checked over symbolic bytes in C18).
func Addr(i int) sdk.AccAddress {
	b := make([]byte, 20)
	for k := range b {
		b[k] = byte(0x10*(i+1) + 1)
	}
	return sdk.AccAddress(b)
}

func Authority() string { return authtypes.NewModuleAddress(govtypes.ModuleName).String() }

type Env struct {
	MS   *model.MultiStore
	Bank *model.Bank
	Ctx  sdk.Context
	Now  time.Time
}

func NewEnv(now time.Time, checkTx bool) *Env {
	ms := model.NewMultiStore()
	bank := model.NewBank()
	e := &Env{MS: ms, Bank: bank, Now: now}
	e.Ctx = rt.NewContext(ms, now, 10, checkTx)
	return e
}

// ---------- stream ----------

type StreamEnv struct {
	*Env
	K       streamkeeper.Keeper
	Key     *storetypes.KVStoreKey
	Escrow  sdk.AccAddress
	FeeColl sdk.AccAddress
}

func NewStreamEnv(now time.Time) *StreamEnv {
	e := NewEnv(now, false)
	escrow := e.Bank.AddModule(streamtypes.ModuleName)
	feeColl := e.Bank.AddModule(authtypes.FeeCollectorName)
	e.Bank.Block(escrow)
	key := storetypes.NewKVStoreKey(streamtypes.StoreKey)
	k := streamkeeper.NewKeeper(key, e.Bank, e.Bank, rt.Codec(), authtypes.FeeCollectorName, Authority())
	return &StreamEnv{Env: e, K: k, Key: key, Escrow: escrow, FeeColl: feeColl}
}

// AnyValidatorFee: any validator-fee rate the chain accepts as a parameter — a raw 18-decimal
// value in [-1, 2] constrained by the real Params.Validate (which is shown to mean [0,1] in C16).
func AnyValidatorFee(name string) sdk.Dec {
	fee := rt.DecRaw(name, -1000000000000000000, 61)
	rt.Assume(streamtypes.Params{ValidatorFee: fee}.Validate() == nil)
	return fee
}

// AnyBlockTime: a block time between 1970-01-01T00:00:01Z and the end of year 9998 (stated bound:
// CometBFT block times are after the genesis time of a chain started in 2020, and a chain running
// in year 9999 is outside every claim).
func AnyBlockTime(name string) time.Time {
	t := rt.Time(name)
	rt.Assume(rt.And(t.Unix() >= 1, t.Unix() <= 253370764800))
	return t
}

func NewStreamMsgServer(se *StreamEnv) streamtypes.MsgServer { return streamkeeper.NewMsgServerImpl(se.K) }
