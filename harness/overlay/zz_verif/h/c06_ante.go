package h

import (
	"time"

	sdk "github.com/cosmos/cosmos-sdk/types"
	"github.com/cosmos/cosmos-sdk/x/authz"
	banktypes "github.com/cosmos/cosmos-sdk/x/bank/types"

	beaconante "github.com/unification-com/mainchain/x/beacon/ante"
	beacontypes "github.com/unification-com/mainchain/x/beacon/types"
	entante "github.com/unification-com/mainchain/x/enterprise/ante"
	entkeeper "github.com/unification-com/mainchain/x/enterprise/keeper"
	enttypes "github.com/unification-com/mainchain/x/enterprise/types"
	wrkante "github.com/unification-com/mainchain/x/wrkchain/ante"
	wrktypes "github.com/unification-com/mainchain/x/wrkchain/types"
	"github.com/unification-com/mainchain/zz_verif/model"
	"github.com/unification-com/mainchain/zz_verif/rt"
)

// AnteEnv: the three custom ante decorators in the order ante.NewAnteHandler chains them
// (wrkchain fee -> beacon fee -> enterprise unlock; H_C06_AnteOrder checks that order against
// the source), over real wrkchain/beacon/enterprise keepers sharing one store and bank ledger.
type AnteEnv struct {
	*Env
	W     *WrkEnv
	B     *BeaconEnv
	E     *EntEnv
	Chain sdk.AnteHandler
	WID   uint64 // a registered WRKChain (owner actor 0), limit WL
	WL    uint64
	BID   uint64
	BL    uint64
}

func NewAnteEnv(now time.Time, checkTx bool) *AnteEnv {
	e := NewEnv(now, checkTx)
	ae := &AnteEnv{Env: e}
	ae.E = NewEntEnvOn(e, 1)
	ae.W = NewWrkEnvOn(e, "wp")
	ae.B = NewBeaconEnvOn(e, "bp")
	ae.WID, ae.WL = rt.U64("w.id"), rt.U64("w.limit")
	ae.BID, ae.BL = rt.U64("b.id"), rt.U64("b.limit")
	rt.Assume(rt.And(rt.And(ae.WID >= 1, ae.WL >= 1), rt.And(ae.BID >= 1, ae.BL >= 1)))
	_ = ae.W.K.SetWrkChain(e.Ctx, wrktypes.WrkChain{WrkchainId: ae.WID, Moniker: "w", Owner: Addr(0).String()})
	_ = ae.W.K.SetWrkChainStorageLimit(e.Ctx, ae.WID, ae.WL)
	_ = ae.B.K.SetBeacon(e.Ctx, beacontypes.Beacon{BeaconId: ae.BID, Moniker: "b", Owner: Addr(0).String()})
	_ = ae.B.K.SetBeaconStorageLimit(e.Ctx, ae.BID, ae.BL)
	ae.Chain = sdk.ChainAnteDecorators(
		wrkante.NewCorrectWrkChainFeeDecorator(e.Bank, e.Bank, ae.W.K, ae.E.K),
		beaconante.NewCorrectBeaconFeeDecorator(e.Bank, e.Bank, ae.B.K, ae.E.K),
		entante.NewCheckLockedUndDecorator(ae.E.K),
	)
	return ae
}

// txSpec: what the symbolic transaction contains, as seen by the oracle.
type txSpec struct {
	Msgs        []sdk.Msg
	Expected    sdk.Int // Σ fees of every WRKChain/BEACON operation, top-level or nested (unbounded integers)
	WrkTop      bool    // has a top-level WRKChain message
	BeaconTop   bool
	Nested      bool // has an operation wrapped in authz.MsgExec
	WrkSlots    sdk.Int
	BeaconSlots sdk.Int
	NOps        int
}

// anyMsg appends one message of kind k to the spec.
//   0 wrk register, 1 wrk record, 2 wrk purchase(n), 3 beacon register, 4 beacon record,
//   5 beacon purchase(n), 6 bank send (no fee rule), 7 authz.MsgExec{wrk register} (nested)
func (ae *AnteEnv) anyMsg(spec *txSpec, k int, tag string) {
	owner := Addr(0).String()
	wp, bp := ae.W.Params, ae.B.Params
	switch k {
	case 0:
		spec.Msgs = append(spec.Msgs, &wrktypes.MsgRegisterWrkChain{Moniker: "m", Name: "n", Owner: owner})
		spec.Expected = spec.Expected.Add(rt.IntOfU64(wp.FeeRegister))
		spec.WrkTop = true
		spec.NOps++
	case 1:
		spec.Msgs = append(spec.Msgs, &wrktypes.MsgRecordWrkChainBlock{WrkchainId: ae.WID, Height: 1, BlockHash: "h", Owner: owner})
		spec.Expected = spec.Expected.Add(rt.IntOfU64(wp.FeeRecord))
		spec.WrkTop = true
		spec.NOps++
	case 2:
		n := rt.U64(tag + ".slots")
		rt.Assume(n >= 1)
		spec.Msgs = append(spec.Msgs, &wrktypes.MsgPurchaseWrkChainStateStorage{WrkchainId: ae.WID, Number: n, Owner: owner})
		spec.Expected = spec.Expected.Add(rt.IntMul(rt.IntOfU64(wp.FeePurchaseStorage), rt.IntOfU64(n)))
		spec.WrkSlots = spec.WrkSlots.Add(rt.IntOfU64(n))
		spec.WrkTop = true
		spec.NOps++
	case 3:
		spec.Msgs = append(spec.Msgs, &beacontypes.MsgRegisterBeacon{Moniker: "m", Name: "n", Owner: owner})
		spec.Expected = spec.Expected.Add(rt.IntOfU64(bp.FeeRegister))
		spec.BeaconTop = true
		spec.NOps++
	case 4:
		spec.Msgs = append(spec.Msgs, &beacontypes.MsgRecordBeaconTimestamp{BeaconId: ae.BID, Hash: "h", SubmitTime: 1, Owner: owner})
		spec.Expected = spec.Expected.Add(rt.IntOfU64(bp.FeeRecord))
		spec.BeaconTop = true
		spec.NOps++
	case 5:
		n := rt.U64(tag + ".slots")
		rt.Assume(n >= 1)
		spec.Msgs = append(spec.Msgs, &beacontypes.MsgPurchaseBeaconStateStorage{BeaconId: ae.BID, Number: n, Owner: owner})
		spec.Expected = spec.Expected.Add(rt.IntMul(rt.IntOfU64(bp.FeePurchaseStorage), rt.IntOfU64(n)))
		spec.BeaconSlots = spec.BeaconSlots.Add(rt.IntOfU64(n))
		spec.BeaconTop = true
		spec.NOps++
	case 6:
		spec.Msgs = append(spec.Msgs, &banktypes.MsgSend{FromAddress: owner, ToAddress: Addr(1).String(), Amount: sdk.Coins{sdk.NewInt64Coin("nund", 1)}})
	case 7:
		inner := &wrktypes.MsgRegisterWrkChain{Moniker: "m", Name: "n", Owner: owner}
		ex := authz.NewMsgExec(Addr(0), []sdk.Msg{inner})
		spec.Msgs = append(spec.Msgs, &ex)
		spec.Expected = spec.Expected.Add(rt.IntOfU64(wp.FeeRegister))
		spec.Nested = true
		spec.NOps++
	}
}

// anyFee: a valid (sorted, positive) fee of one or two denominations; the module denomination
// nund may be absent. Returns the coins and the nund amount.
func anyFee() (sdk.Coins, sdk.Int) {
	f := rt.BigInt("fee.nund", 1, 128)
	switch rt.Choose(4) {
	case 0:
		return sdk.Coins{sdk.NewCoin("nund", f)}, f
	case 1:
		return sdk.Coins{sdk.NewCoin("nund", f), sdk.NewCoin("zzz", rt.BigInt("fee.zzz", 1, 128))}, f
	case 2:
		return sdk.Coins{sdk.NewCoin("aaa", rt.BigInt("fee.aaa", 1, 128)), sdk.NewCoin("nund", f)}, f
	default:
		return sdk.Coins{sdk.NewCoin("aaa", rt.BigInt("fee.aaa", 1, 128))}, sdk.ZeroInt()
	}
}

// H_C06_Ante: one transaction of 1..2 (thorough: 3) messages through the custom decorator chain.
func H_C06_Ante() {
	now := AnyBlockTime("now")
	checkTx := true // mempool admission; the thorough tier also runs the chain in deliver mode
	if rt.Thorough() {
		checkTx = rt.Bool("checkTx")
	}
	ae := NewAnteEnv(now, checkTx)

	k, ctx := ae.E.K, ae.Ctx
	books := setupBooksOpt(ae.E, rt.Thorough())
	// the fee payer: actor 0, liquid balance in nund (and possibly aaa/zzz), base or vesting account
	liquid := rt.BigInt("payer.liquid", 0, 128)
	ae.Bank.Fund(Addr(0), "nund", liquid)
	vestingLocked := sdk.ZeroInt() // part of the liquid balance that is still vesting (unspendable)
	kinds := 2
	if rt.Thorough() {
		kinds = 3
	}
	switch rt.Choose(kinds) {
	case 0:
		ae.Bank.AddBase(Addr(0))
	case 1:
		vestingLocked = rt.BigInt("payer.vesting", 1, 128)
		ae.Bank.AddVesting(Addr(0), sdk.Coins{sdk.NewCoin("nund", vestingLocked)}, sdk.Coins{}, sdk.Coins{})
	default: // unknown account: no account object at all
	}
	spendable := rt.IntMax(sdk.ZeroInt(), rt.IntSub(liquid, vestingLocked))
	maxMsgs := 2
	if rt.Thorough() {
		maxMsgs = 3
	}
	nm := 1 + rt.Choose(maxMsgs)
	spec := &txSpec{Expected: sdk.ZeroInt(), WrkSlots: sdk.ZeroInt(), BeaconSlots: sdk.ZeroInt()}
	// quick tier: the first message is of any kind, later ones are a WRKChain registration or
	// purchase, a BEACON purchase or a bank send (covers same-chain double purchases, mixed modules
	// and a non-module message in front); thorough: every combination
	later := []int{0, 2, 5, 6}
	for i := 0; i < nm; i++ {
		kind := 0
		if i == 0 || (rt.Thorough() && i == 1) {
			kind = rt.Choose(8)
		} else {
			kind = later[rt.Choose(len(later))]
		}
		ae.anyMsg(spec, kind, "m"+string(rune('0'+i)))
	}
	fee, feeNund := anyFee()
	tx := &model.Tx{Msgs: spec.Msgs, Fee: fee, Payer: Addr(0), Gas: 200000}
	locked := books.Locked[0]
	spent := books.Spent[0]
	wl0, wl1 := k.AddressIsWhitelisted(ctx, Addr(0)), k.AddressIsWhitelisted(ctx, Addr(1))

	var err error
	panicked := rt.Catch(func() { _, err = ae.Chain(ctx, tx, false) })
	// a panic in the ante handler is recovered by baseapp and rejects the transaction
	admitted := !panicked && err == nil
	if !admitted {
		rt.Reach("rejected")
		return // baseapp discards the ante branch of a rejected transaction (assumption)
	}
	rt.Reach("admitted")
	rt.Known("C06-nested-authz-exec", spec.Nested)
	rt.Known("C06-mixed-wrkchain-beacon-tx", spec.WrkTop && spec.BeaconTop)
	if spec.NOps > 0 && checkTx {
		rt.Reach("admitted-with-ops")
		rt.Assert("C06.admitted-only-with-exact-fee", rt.IntEq(feeNund, spec.Expected))
		rt.Assert("C06.admitted-only-if-payer-can-cover", rt.IntLe(feeNund, rt.IntAdd(spendable, locked)))
	}
	// (no assertion on the ante's own slot pre-check: the property constrains the stored limit, which
	// the message servers enforce — H_C08_*Purchase; the pre-check's slot sum can wrap for three
	// purchases of ~2^63 slots each, which costs the sender the fee and changes no limit)
	// C05: locked eFUND is reduced only for WRKChain/BEACON transactions, by exactly min(fee, locked)
	nl := k.GetLockedUndAmountForAccount(ctx, Addr(0)).Amount
	ns := k.GetSpentEFUNDAmountForAccount(ctx, Addr(0)).Amount
	unlocked := sdk.ZeroInt()
	if spec.WrkTop || spec.BeaconTop {
		unlocked = rt.IntMin(feeNund, locked)
		rt.Reach("admitted-wrk-or-beacon")
	}
	rt.Assert("C05+C06.locked-reduced-by-min(fee,locked)-only-for-wrk/beacon", rt.IntEq(nl, rt.IntSub(locked, unlocked)))
	rt.Assert("C05.unlocked-recorded-as-spent", rt.IntEq(ns, rt.IntAdd(spent, unlocked)))
	rt.Assert("C05.unlocked-becomes-liquid", rt.IntEq(ae.Bank.Bal(Addr(0), "nund"), rt.IntAdd(liquid, unlocked)))
	rt.Assert("C05.other-account-untouched", rt.And(rt.IntEq(k.GetLockedUndAmountForAccount(ctx, Addr(1)).Amount, books.Locked[1]), rt.IntEq(k.GetSpentEFUNDAmountForAccount(ctx, Addr(1)).Amount, books.Spent[1])))
	rt.Assert("C13+C18.paying-fees-changes-no-whitelist-entry", wl0 == k.AddressIsWhitelisted(ctx, Addr(0)) && wl1 == k.AddressIsWhitelisted(ctx, Addr(1)))
	rt.Assert("C04+C06+C14+C15+C17.books-balance", booksBalanced(ae.E, books, rt.IntSub(locked, unlocked), books.Locked[1], rt.IntAdd(spent, unlocked), books.Spent[1]))
	rt.Assert("C02.ante-mints-nothing", rt.And(ae.Bank.Minted.IsZero(), ae.Bank.Burned.IsZero()))
	_ = enttypes.ModuleName
}

// anteChainOn: the same decorator chain bound to another node's bank ledger.
func anteChainOn(ae *AnteEnv, e *Env) sdk.AnteHandler {
	ek := entkeeper.NewKeeper(ae.E.Key, e.Bank, e.Bank, rt.Codec(), Authority())
	return sdk.ChainAnteDecorators(
		wrkante.NewCorrectWrkChainFeeDecorator(e.Bank, e.Bank, ae.W.K, ek),
		beaconante.NewCorrectBeaconFeeDecorator(e.Bank, e.Bank, ae.B.K, ek),
		entante.NewCheckLockedUndDecorator(ek),
	)
}

// H_C06_Recheck: the exact-fee rule also holds when the mempool re-validates a transaction after a
// block (CheckTx with the recheck flag; parameters may have changed since first admission).
func H_C06_Recheck() {
	now := AnyBlockTime("now")
	ae := NewAnteEnv(now, true)
	ae.Ctx = ae.Ctx.WithIsReCheckTx(true)
	books := setupBooksOpt(ae.E, false)
	liquid := rt.BigInt("payer.liquid", 0, 128)
	ae.Bank.Fund(Addr(0), "nund", liquid)
	ae.Bank.AddBase(Addr(0))
	spec := &txSpec{Expected: sdk.ZeroInt(), WrkSlots: sdk.ZeroInt(), BeaconSlots: sdk.ZeroInt()}
	kinds := []int{0, 2, 3, 5}
	ae.anyMsg(spec, kinds[rt.Choose(len(kinds))], "m0")
	f := rt.BigInt("fee.nund", 1, 128)
	tx := &model.Tx{Msgs: spec.Msgs, Fee: sdk.Coins{sdk.NewCoin("nund", f)}, Payer: Addr(0), Gas: 200000}
	var err error
	panicked := rt.Catch(func() { _, err = ae.Chain(ae.Ctx, tx, false) })
	if panicked || err != nil {
		rt.Reach("rejected")
		return
	}
	rt.Reach("admitted")
	rt.Assert("C06+C16.recheck-admits-only-with-exact-fee", rt.IntEq(f, spec.Expected))
	rt.Assert("C06.recheck-admits-only-if-payer-can-cover", rt.IntLe(f, rt.IntAdd(liquid, books.Locked[0])))
}
