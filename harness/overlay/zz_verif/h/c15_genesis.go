package h

import (
	storetypes "github.com/cosmos/cosmos-sdk/store/types"
	sdk "github.com/cosmos/cosmos-sdk/types"
	authtypes "github.com/cosmos/cosmos-sdk/x/auth/types"

	"github.com/unification-com/mainchain/x/beacon"
	beaconkeeper "github.com/unification-com/mainchain/x/beacon/keeper"
	beacontypes "github.com/unification-com/mainchain/x/beacon/types"
	"github.com/unification-com/mainchain/x/enterprise"
	entkeeper "github.com/unification-com/mainchain/x/enterprise/keeper"
	enttypes "github.com/unification-com/mainchain/x/enterprise/types"
	streamkeeper "github.com/unification-com/mainchain/x/stream/keeper"
	streamtypes "github.com/unification-com/mainchain/x/stream/types"
	"github.com/unification-com/mainchain/x/wrkchain"
	wrkkeeper "github.com/unification-com/mainchain/x/wrkchain/keeper"
	wrktypes "github.com/unification-com/mainchain/x/wrkchain/types"
	"github.com/unification-com/mainchain/zz_verif/model"
	"github.com/unification-com/mainchain/zz_verif/rt"
)

// freshEnv: a new, empty multistore (the chain started from the exported genesis) sharing the
// bank ledger (the bank module's own export/import is assumed lossless).
func freshEnv(e *Env) *Env {
	ms := model.NewMultiStore()
	return &Env{MS: ms, Bank: e.Bank, Now: e.Now, Ctx: rt.NewContext(ms, e.Now, 1, false)}
}

// H_C15_Wrkchain: export -> validate -> import into an empty store -> identical store, identical
// re-export. State: the INV-W pre-state of setupWrk (a chain with <=2 records + a foreign chain),
// registered through states a real MsgRegisterWrkChain can produce (any accepted field values).
func H_C15_Wrkchain() {
	now := AnyBlockTime("now")
	we := NewWrkEnv(now)
	pre := setupWrk(we, 2)
	// registrations are created by MsgRegisterWrkChain: its ValidateBasic is the only constraint
	reg := wrktypes.MsgRegisterWrkChain{Moniker: pre.WC.Moniker, Name: pre.WC.Name, GenesisHash: pre.WC.Genesis, BaseType: pre.WC.Type, Owner: pre.WC.Owner}
	rt.Assume(reg.ValidateBasic() == nil)
	reg2 := wrktypes.MsgRegisterWrkChain{Moniker: pre.WC2.Moniker, Name: pre.WC2.Name, GenesisHash: pre.WC2.Genesis, BaseType: pre.WC2.Type, Owner: pre.WC2.Owner}
	rt.Assume(reg2.ValidateBasic() == nil)
	for i := 0; i < pre.N; i++ {
		rt.Assume(len(pre.B[i].Blockhash) > 0) // MsgRecordWrkChainBlock.ValidateBasic
	}
	rt.Assume(len(pre.GB.Blockhash) > 0)
	var g *wrktypes.GenesisState
	panicked := rt.Catch(func() { g = wrkchain.ExportGenesis(we.Ctx, we.K) })
	rt.Assert("C15.wrk-export-no-panic", !panicked)
	if panicked {
		return
	}
	rt.Assert("C15.wrk-exported-genesis-valid", wrktypes.ValidateGenesis(*g) == nil)
	e2 := freshEnv(we.Env)
	k2 := wrkkeeper.NewKeeper(storetypes.NewKVStoreKey(wrktypes.StoreKey), rt.Codec(), Authority())
	panicked = rt.Catch(func() { wrkchain.InitGenesis(e2.Ctx, k2, *g) })
	rt.Assert("C15.wrk-import-no-panic", !panicked)
	if panicked {
		return
	}
	rt.Reach("imported")
	hi2, herr := k2.GetHighestWrkChainID(e2.Ctx)
	rt.Assert("C09+C15.wrk-id-counter-restored", rt.And(herr == nil, rt.And(hi2 == pre.Highest, rt.And(pre.ID < hi2, pre.ID2 < hi2))))
	rt.Assert("C07+C08+C09+C15+C18.wrk-state-identical-after-import", we.MS.Store(wrktypes.StoreKey).SameAs(e2.MS.Store(wrktypes.StoreKey)))
	g2 := wrkchain.ExportGenesis(e2.Ctx, k2)
	rt.Assert("C15.wrk-re-export-identical", rt.ProtoEqual(g, g2))
}

func H_C15_Beacon() {
	now := AnyBlockTime("now")
	be := NewBeaconEnv(now)
	pre := setupBeacon(be, 2)
	reg := beacontypes.MsgRegisterBeacon{Moniker: pre.B.Moniker, Name: pre.B.Name, Owner: pre.B.Owner}
	rt.Assume(reg.ValidateBasic() == nil)
	reg2 := beacontypes.MsgRegisterBeacon{Moniker: pre.B2.Moniker, Name: pre.B2.Name, Owner: pre.B2.Owner}
	rt.Assume(reg2.ValidateBasic() == nil)
	for i := 0; i < pre.N; i++ {
		rt.Assume(rt.And(len(pre.T[i].Hash) > 0, pre.T[i].SubmitTime > 0)) // MsgRecordBeaconTimestamp.ValidateBasic
	}
	rt.Assume(rt.And(len(pre.GT.Hash) > 0, pre.GT.SubmitTime > 0))
	var g *beacontypes.GenesisState
	panicked := rt.Catch(func() { g = beacon.ExportGenesis(be.Ctx, be.K) })
	rt.Assert("C15.beacon-export-no-panic", !panicked)
	if panicked {
		return
	}
	rt.Assert("C15.beacon-exported-genesis-valid", beacontypes.ValidateGenesis(*g) == nil)
	e2 := freshEnv(be.Env)
	k2 := beaconkeeper.NewKeeper(storetypes.NewKVStoreKey(beacontypes.StoreKey), rt.Codec(), Authority())
	panicked = rt.Catch(func() { beacon.InitGenesis(e2.Ctx, k2, *g) })
	rt.Assert("C15.beacon-import-no-panic", !panicked)
	if panicked {
		return
	}
	rt.Reach("imported")
	hi2, herr := k2.GetHighestBeaconID(e2.Ctx)
	rt.Assert("C09+C15.beacon-id-counter-restored", rt.And(herr == nil, rt.And(hi2 == pre.Highest, rt.And(pre.ID < hi2, pre.ID2 < hi2))))
	rt.Assert("C07+C08+C09+C15+C18.beacon-state-identical-after-import", be.MS.Store(beacontypes.StoreKey).SameAs(e2.MS.Store(beacontypes.StoreKey)))
	g2 := beacon.ExportGenesis(e2.Ctx, k2)
	rt.Assert("C15.beacon-re-export-identical", rt.ProtoEqual(g, g2))
}

// H_C15_Enterprise: orders in every status with their queues, whitelist, locked/spent books.
func H_C15_Enterprise() {
	now := AnyBlockTime("now")
	ee := NewEntEnvOn(NewEnv(now, false), 0)
	k, ctx := ee.K, ee.Ctx
	nowSec := uint64(now.Unix())
	var ids [4]uint64
	for i := range ids {
		ids[i] = rt.U64("id" + string(rune('0'+i)))
	}
	rt.Assume(rt.And(ids[0] >= 1, rt.And(ids[0] < ids[1], rt.And(ids[1] < ids[2], ids[2] < ids[3]))))
	highest := rt.U64("highest")
	rt.Assume(ids[3] < highest)
	k.SetHighestPurchaseOrderID(ctx, highest)
	// the two accounts of the books have records (accounts without records simply do not appear)
	books := setupBooksOpt(ee, false)
	statuses := []enttypes.PurchaseOrderStatus{enttypes.StatusRaised, enttypes.StatusAccepted, enttypes.StatusRejected, enttypes.StatusCompleted}
	n := rt.Choose(5)
	for i := 0; i < n; i++ {
		po := anyOrder("po"+string(rune('0'+i)), ids[i], Addr(i%2), statuses[i], 1, nowSec)
		_ = k.SetPurchaseOrder(ctx, po)
		if statuses[i] == enttypes.StatusRaised {
			k.AddPoToRaisedQueue(ctx, ids[i])
		}
		if statuses[i] == enttypes.StatusAccepted {
			k.AddPoToAcceptedQueue(ctx, ids[i])
		}
	}
	if rt.Choose(2) == 1 {
		_ = k.AddAddressToWhitelist(ctx, Addr(0))
	}
	if rt.Choose(2) == 1 {
		_ = k.AddAddressToWhitelist(ctx, Addr(1))
	}
	// the remainder stands for other accounts' books; here all locked eFUND is held by the two
	rt.Assume(rt.And(rt.IntEq(books.OtherLocked, sdk.ZeroInt()), rt.IntEq(books.OtherSpent, sdk.ZeroInt())))
	var g *enttypes.GenesisState
	panicked := rt.Catch(func() { g = enterprise.ExportGenesis(ctx, k) })
	rt.Assert("C15.ent-export-no-panic", !panicked)
	if panicked {
		return
	}
	rt.Assert("C15.ent-exported-genesis-valid", enttypes.ValidateGenesis(*g) == nil)
	e2 := freshEnv(ee.Env)
	k2 := entkeeper.NewKeeper(storetypes.NewKVStoreKey(enttypes.StoreKey), ee.Bank, ee.Bank, rt.Codec(), Authority())
	panicked = rt.Catch(func() { enterprise.InitGenesis(e2.Ctx, k2, ee.Bank, ee.Bank, *g) })
	rt.Assert("C15.ent-import-no-panic", !panicked)
	if panicked {
		return
	}
	rt.Reach("imported")
	rt.Assert("C03+C04+C05+C13+C15+C17+C18.ent-state-identical-after-import", ee.MS.Store(enttypes.StoreKey).SameAs(e2.MS.Store(enttypes.StoreKey)))
	g2 := enterprise.ExportGenesis(e2.Ctx, k2)
	rt.Assert("C15.ent-re-export-identical", rt.ProtoEqual(g, g2))
	// importing twice (the module appears twice in the application's genesis order) is idempotent
	panicked = rt.Catch(func() { enterprise.InitGenesis(e2.Ctx, k2, ee.Bank, ee.Bank, *g) })
	rt.Assert("C15.ent-import-idempotent", rt.And(!panicked, ee.MS.Store(enttypes.StoreKey).SameAs(e2.MS.Store(enttypes.StoreKey))))
}

// H_C15_Stream: up to three streams among three actors, two denominations. One of the parties is a
// 32-byte address (module-derived / group-policy accounts) so that sender and receiver lengths
// differ in both directions: the export walks the store by parsing keys.
func H_C15_Stream() {
	now := AnyBlockTime("now")
	se := NewStreamEnv(now)
	k, ctx := se.K, se.Ctx
	fee := AnyValidatorFee("valFee")
	_ = k.SetParams(ctx, streamtypes.Params{ValidatorFee: fee})
	type pair struct{ R, S int }
	pairs := []pair{{0, 1}, {0, 2}, {2, 1}}
	party := func(i int) sdk.AccAddress {
		if i == 2 {
			return LongOver0()
		}
		return Addr(i)
	}
	for i, pr := range pairs {
		if rt.Choose(2) == 1 {
			tag := "s" + string(rune('0'+i))
			denom := "nund"
			if i == 1 && rt.Choose(2) == 1 {
				denom = "other"
			}
			dep := rt.BigInt(tag+".deposit", 0, 128)
			st := streamtypes.Stream{Deposit: sdk.NewCoin(denom, dep), FlowRate: rt.I64(tag + ".rate"),
				LastOutflowTime: rt.Time(tag + ".last"), DepositZeroTime: rt.Time(tag + ".zero"), Cancellable: rt.Bool(tag + ".cancellable")}
			_ = k.SetStream(ctx, party(pr.R), party(pr.S), st)
			se.Bank.Fund(se.Escrow, denom, dep) // INV-S: escrow = sum of deposits
		}
	}
	var g *streamtypes.GenesisState
	panicked := rt.Catch(func() { g = k.ExportGenesis(ctx) })
	rt.Assert("C15.stream-export-no-panic", !panicked)
	if panicked {
		return
	}
	rt.Assert("C15.stream-exported-genesis-valid", g.Validate() == nil)
	e2 := freshEnv(se.Env)
	k2 := streamkeeper.NewKeeper(storetypes.NewKVStoreKey(streamtypes.StoreKey), se.Bank, se.Bank, rt.Codec(), authtypes.FeeCollectorName, Authority())
	panicked = rt.Catch(func() { k2.InitGenesis(e2.Ctx, g) })
	rt.Assert("C15.stream-import-no-panic", !panicked)
	if panicked {
		return
	}
	rt.Reach("imported")
	rt.Assert("C10+C12+C15.stream-state-identical-after-import", se.MS.Store(streamtypes.StoreKey).SameAs(e2.MS.Store(streamtypes.StoreKey)))
	g2 := k2.ExportGenesis(e2.Ctx)
	rt.Assert("C15.stream-re-export-identical", rt.ProtoEqual(g, g2))
}
