package h

import (
	sdk "github.com/cosmos/cosmos-sdk/types"

	beaconkeeper "github.com/unification-com/mainchain/x/beacon/keeper"
	beacontypes "github.com/unification-com/mainchain/x/beacon/types"
	streamkeeper "github.com/unification-com/mainchain/x/stream/keeper"
	streamtypes "github.com/unification-com/mainchain/x/stream/types"
	wrkkeeper "github.com/unification-com/mainchain/x/wrkchain/keeper"
	wrktypes "github.com/unification-com/mainchain/x/wrkchain/types"
	"github.com/unification-com/mainchain/zz_verif/rt"
)

// anyAuthority: the governance authority, or some other account.
func anyAuthority() (string, bool) {
	if rt.Choose(2) == 0 {
		return Authority(), true
	}
	return Addr(2).String(), false
}

// ---------- WRKChain ----------

func anyWrkParamsFull(tag string) wrktypes.Params {
	return wrktypes.Params{
		FeeRegister: rt.U64(tag + ".feeRegister"), FeeRecord: rt.U64(tag + ".feeRecord"), FeePurchaseStorage: rt.U64(tag + ".feePurchase"),
		Denom: rt.Str(tag + ".denom"), DefaultStorageLimit: rt.U64(tag + ".defaultLimit"), MaxStorageLimit: rt.U64(tag + ".maxLimit"),
	}
}

// specWrkParams: the validity rule of the statement (well-formed denomination, positive fees and
// limits, default <= maximum).
func specWrkParams(p wrktypes.Params) bool {
	return rt.And(sdk.ValidateDenom(p.Denom) == nil,
		rt.And(rt.And(p.FeeRegister > 0, rt.And(p.FeeRecord > 0, p.FeePurchaseStorage > 0)),
			rt.And(rt.And(p.DefaultStorageLimit > 0, p.MaxStorageLimit > 0), p.DefaultStorageLimit <= p.MaxStorageLimit)))
}

func H_C16_WrkValidate() {
	p := anyWrkParamsFull("p")
	rt.Assert("C16.wrk-validate-iff-spec", rt.Iff(p.Validate() == nil, specWrkParams(p)))
	rt.Reach("end")
}

// H_C16_WrkUpdate: UpdateParams is all-or-nothing, only for the authority, and stores exactly
// the submitted set; afterwards the consumers use the new values only.
func H_C16_WrkUpdate() {
	now := AnyBlockTime("now")
	we := NewWrkEnv(now)
	pre := setupWrk(we, 0)
	auth, isAuth := anyAuthority()
	p2 := anyWrkParamsFull("q")
	snap := we.MS.Snapshot()
	srv := wrkkeeper.NewMsgServerImpl(we.K)
	umsg := &wrktypes.MsgUpdateParams{Authority: auth, Params: p2}
	rt.Assert("C16.wrk-update-stateless-check-is-params-validity", rt.Iff(umsg.ValidateBasic() == nil, specWrkParams(p2)))
	_, err := srv.UpdateParams(sdk.WrapSDKContext(we.Ctx), umsg)
	rt.Assert("C16.wrk-update-iff-authority-and-valid", rt.Iff(err == nil, rt.And(isAuth, specWrkParams(p2))))
	rt.Assert("C13.wrk-update-only-authority", rt.Implies(err == nil, isAuth))
	if err != nil {
		rt.Reach("update-rejected")
		rt.Assert("C16.wrk-rejected-update-changes-nothing", we.MS.SameAs(snap))
		return
	}
	rt.Reach("update-ok")
	rt.Assert("C16.wrk-stored=submitted", we.K.GetParams(we.Ctx) == p2)
	rt.Assert("C16.wrk-stored-valid", specWrkParams(we.K.GetParams(we.Ctx)))
	wc, _ := we.K.GetWrkChain(we.Ctx, pre.ID)
	l, _ := we.K.GetWrkChainStorageLimit(we.Ctx, pre.ID)
	rt.Assert("C08.update-leaves-registrations", rt.And(wc == pre.WC, l.InStateLimit == pre.L))
	// consumers
	rt.Assert("C16.wrk-fees-use-new", rt.And(we.K.GetParamRegistrationFee(we.Ctx) == p2.FeeRegister,
		rt.And(we.K.GetParamRecordFee(we.Ctx) == p2.FeeRecord, rt.And(we.K.GetParamPurchaseStorageFee(we.Ctx) == p2.FeePurchaseStorage, we.K.GetParamDenom(we.Ctx) == p2.Denom))))
	switch rt.Choose(2) {
	case 0: // purchase is checked against the new maximum
		n := rt.U64("m.number")
		rt.Assume(n > 0)
		_, perr := srv.PurchaseWrkChainStateStorage(sdk.WrapSDKContext(we.Ctx), &wrktypes.MsgPurchaseWrkChainStateStorage{WrkchainId: pre.ID, Number: n, Owner: Addr(0).String()})
		fits := rt.IntLe(rt.IntAdd(rt.IntOfU64(pre.L), rt.IntOfU64(n)), rt.IntOfU64(p2.MaxStorageLimit))
		rt.Assert("C16.wrk-purchase-uses-new-max", rt.Iff(perr == nil, fits))
		rt.Assert("C16.wrk-remaining-uses-new-max", rt.Implies(perr != nil, rt.IntEq(rt.IntOfU64(we.K.GetMaxPurchasableSlots(we.Ctx, pre.ID)),
			rt.IntMax(sdk.ZeroInt(), rt.IntSub(rt.IntOfU64(p2.MaxStorageLimit), rt.IntOfU64(pre.L))))))
	case 1: // registration starts at the new default
		rt.Assume(pre.Highest < 18446744073709551615)
		res, rerr := srv.RegisterWrkChain(sdk.WrapSDKContext(we.Ctx), &wrktypes.MsgRegisterWrkChain{Moniker: "m", Name: "n", GenesisHash: "g", BaseType: "t", Owner: Addr(1).String()})
		rt.Assert("C16.wrk-register-ok", rerr == nil)
		if rerr == nil {
			nl, _ := we.K.GetWrkChainStorageLimit(we.Ctx, res.WrkchainId)
			rt.Assert("C16.wrk-register-uses-new-default", nl.InStateLimit == p2.DefaultStorageLimit)
		}
	}
}

// ---------- BEACON ----------

func anyBeaconParamsFull(tag string) beacontypes.Params {
	return beacontypes.Params{
		FeeRegister: rt.U64(tag + ".feeRegister"), FeeRecord: rt.U64(tag + ".feeRecord"), FeePurchaseStorage: rt.U64(tag + ".feePurchase"),
		Denom: rt.Str(tag + ".denom"), DefaultStorageLimit: rt.U64(tag + ".defaultLimit"), MaxStorageLimit: rt.U64(tag + ".maxLimit"),
	}
}

func specBeaconParams(p beacontypes.Params) bool {
	return rt.And(sdk.ValidateDenom(p.Denom) == nil,
		rt.And(rt.And(p.FeeRegister > 0, rt.And(p.FeeRecord > 0, p.FeePurchaseStorage > 0)),
			rt.And(rt.And(p.DefaultStorageLimit > 0, p.MaxStorageLimit > 0), p.DefaultStorageLimit <= p.MaxStorageLimit)))
}

func H_C16_BeaconValidate() {
	p := anyBeaconParamsFull("p")
	rt.Assert("C16.beacon-validate-iff-spec", rt.Iff(p.Validate() == nil, specBeaconParams(p)))
	rt.Reach("end")
}

func H_C16_BeaconUpdate() {
	now := AnyBlockTime("now")
	be := NewBeaconEnv(now)
	pre := setupBeacon(be, 0)
	auth, isAuth := anyAuthority()
	p2 := anyBeaconParamsFull("q")
	snap := be.MS.Snapshot()
	srv := beaconkeeper.NewMsgServerImpl(be.K)
	umsg := &beacontypes.MsgUpdateParams{Authority: auth, Params: p2}
	rt.Assert("C16.beacon-update-stateless-check-is-params-validity", rt.Iff(umsg.ValidateBasic() == nil, specBeaconParams(p2)))
	_, err := srv.UpdateParams(sdk.WrapSDKContext(be.Ctx), umsg)
	rt.Assert("C16.beacon-update-iff-authority-and-valid", rt.Iff(err == nil, rt.And(isAuth, specBeaconParams(p2))))
	rt.Assert("C13.beacon-update-only-authority", rt.Implies(err == nil, isAuth))
	if err != nil {
		rt.Reach("update-rejected")
		rt.Assert("C16.beacon-rejected-update-changes-nothing", be.MS.SameAs(snap))
		return
	}
	rt.Reach("update-ok")
	rt.Assert("C16.beacon-stored=submitted", be.K.GetParams(be.Ctx) == p2)
	b, _ := be.K.GetBeacon(be.Ctx, pre.ID)
	l, _ := be.K.GetBeaconStorageLimit(be.Ctx, pre.ID)
	rt.Assert("C08.update-leaves-registrations", rt.And(b == pre.B, l.InStateLimit == pre.L))
	rt.Assert("C16.beacon-fees-use-new", rt.And(be.K.GetParamRegistrationFee(be.Ctx) == p2.FeeRegister,
		rt.And(be.K.GetParamRecordFee(be.Ctx) == p2.FeeRecord, rt.And(be.K.GetParamPurchaseStorageFee(be.Ctx) == p2.FeePurchaseStorage, be.K.GetParamDenom(be.Ctx) == p2.Denom))))
	switch rt.Choose(2) {
	case 0:
		n := rt.U64("m.number")
		rt.Assume(n > 0)
		_, perr := srv.PurchaseBeaconStateStorage(sdk.WrapSDKContext(be.Ctx), &beacontypes.MsgPurchaseBeaconStateStorage{BeaconId: pre.ID, Number: n, Owner: Addr(0).String()})
		fits := rt.IntLe(rt.IntAdd(rt.IntOfU64(pre.L), rt.IntOfU64(n)), rt.IntOfU64(p2.MaxStorageLimit))
		rt.Assert("C16.beacon-purchase-uses-new-max", rt.Iff(perr == nil, fits))
	case 1:
		rt.Assume(pre.Highest < 18446744073709551615)
		res, rerr := srv.RegisterBeacon(sdk.WrapSDKContext(be.Ctx), &beacontypes.MsgRegisterBeacon{Moniker: "m", Name: "n", Owner: Addr(1).String()})
		rt.Assert("C16.beacon-register-ok", rerr == nil)
		if rerr == nil {
			nl, _ := be.K.GetBeaconStorageLimit(be.Ctx, res.BeaconId)
			rt.Assert("C16.beacon-register-uses-new-default", nl.InStateLimit == p2.DefaultStorageLimit)
		}
	}
}

// ---------- stream ----------

// H_C16_StreamValidate: the validator fee is accepted iff it is within [0,1].
func H_C16_StreamValidate() {
	fee := rt.DecRaw("fee", -9000000000000000000, 80)
	p := streamtypes.Params{ValidatorFee: fee}
	raw := rt.DecRawOf(fee)
	inRange := rt.And(rt.IntLe(sdk.ZeroInt(), raw), rt.IntLe(raw, sdk.NewIntFromUint64(1000000000000000000)))
	rt.Assert("C16.stream-validate-iff-in-[0,1]", rt.Iff(p.Validate() == nil, inRange))
	rt.Assert("C16.stream-nil-fee-rejected", streamtypes.Params{}.Validate() != nil)
	rt.Reach("end")
}

// H_C16_StreamUpdate: UpdateParams all-or-nothing + the next release splits with the new rate.
func H_C16_StreamUpdate() {
	now := AnyBlockTime("now")
	se := NewStreamEnv(now)
	old := AnyValidatorFee("valFee")
	_ = se.K.SetParams(se.Ctx, streamtypes.Params{ValidatorFee: old})
	pre := setupStream(se, "nund")
	rt.Assume(rt.IntLt(sdk.ZeroInt(), pre.Deposit))
	auth, isAuth := anyAuthority()
	fee2 := rt.DecRaw("fee2", -9000000000000000000, 80)
	raw2 := rt.DecRawOf(fee2)
	valid := rt.And(rt.IntLe(sdk.ZeroInt(), raw2), rt.IntLe(raw2, sdk.NewIntFromUint64(1000000000000000000)))
	snap := se.MS.Snapshot()
	srv := streamkeeper.NewMsgServerImpl(se.K)
	umsg := &streamtypes.MsgUpdateParams{Authority: auth, Params: streamtypes.Params{ValidatorFee: fee2}}
	rt.Assert("C16.stream-update-stateless-check-is-params-validity", rt.Iff(umsg.ValidateBasic() == nil, valid))
	_, err := srv.UpdateParams(sdk.WrapSDKContext(se.Ctx), umsg)
	rt.Assert("C16.stream-update-iff-authority-and-valid", rt.Iff(err == nil, rt.And(isAuth, valid)))
	rt.Assert("C13.stream-update-only-authority", rt.Implies(err == nil, isAuth))
	if err != nil {
		rt.Reach("update-rejected")
		rt.Assert("C16.stream-rejected-update-changes-nothing", se.MS.SameAs(snap))
		return
	}
	rt.Reach("update-ok")
	rt.Assert("C16.stream-stored=submitted", rt.IntEq(rt.DecRawOf(se.K.GetParams(se.Ctx).ValidatorFee), raw2))
	st, _ := se.K.GetStream(se.Ctx, pre.Receiver, pre.Sender)
	rt.Assert("C10.update-params-leaves-deposit", rt.And(rt.IntEq(st.Deposit.Amount, pre.Deposit), rt.IntEq(se.Bank.Bal(se.Escrow, "nund"), rt.IntAdd(pre.Deposit, pre.Other))))
	res, cerr := srv.ClaimStream(sdk.WrapSDKContext(se.Ctx), &streamtypes.MsgClaimStream{Receiver: pre.Receiver.String(), Sender: pre.Sender.String()})
	rt.Assert("C12.claim-after-update-succeeds", cerr == nil)
	if cerr == nil {
		rt.Assert("C16.stream-split-uses-new-fee", rt.IntEq(res.ValidatorFee.Amount,
			rt.IntDivFloor(rt.IntMul(res.TotalClaimed.Amount, raw2), sdk.NewIntFromUint64(1000000000000000000))))
	}
}
