package h

import (
	sdk "github.com/cosmos/cosmos-sdk/types"

	streamkeeper "github.com/unification-com/mainchain/x/stream/keeper"
	streamtypes "github.com/unification-com/mainchain/x/stream/types"
	"github.com/unification-com/mainchain/zz_verif/rt"
)

// symbolic stream satisfying INV-S, stored with the real setter, with the escrow funded to back it
// (plus a symbolic remainder standing for all other streams of the same denom).
type streamPre struct {
	Deposit  sdk.Int
	Rate     int64
	Last     sdk.Int // ns, exact
	Zero     sdk.Int
	Other    sdk.Int
	Receiver sdk.AccAddress
	Sender   sdk.AccAddress
}

func setupStream(se *StreamEnv, denom string) streamPre {
	recv, send := Addr(0), Addr(1)
	se.Bank.AddBase(recv)
	se.Bank.AddBase(send)
	dep := rt.BigInt("deposit", 0, 200)
	rate := rt.I64("rate")
	last := rt.Time("last")
	zero := rt.Time("zero")
	lastNs, zeroNs := rt.TimeNanos(last), rt.TimeNanos(zero)
	rt.Assume(invStream(dep, rate, lastNs, zeroNs, rt.TimeNanos(se.Now)))
	st := streamtypes.Stream{
		Deposit:         sdk.NewCoin(denom, dep),
		FlowRate:        rate,
		LastOutflowTime: last,
		DepositZeroTime: zero,
		Cancellable:     true,
	}
	_ = se.K.SetStream(se.Ctx, recv, send, st)
	other := rt.BigInt("otherDeposits", 0, 200)
	se.Bank.Fund(se.Escrow, denom, dep.Add(other))
	return streamPre{Deposit: dep, Rate: rate, Last: lastNs, Zero: zeroNs, Other: other, Receiver: recv, Sender: send}
}

// invStream is INV-S for one stream (all times in exact nanoseconds):
//   rate >= 1, deposit >= 0, last <= now,
//   deposit > 0  =>  rate·(zero − last) <= deposit·1e9   (only binding when zero > last)
//   deposit = 0  =>  zero <= now                          (an empty stream is always "expired")
//   zero <= 9999-12-31T23:59:59Z                          (AddSeconds saturates there)
func invStream(dep sdk.Int, rate int64, lastNs, zeroNs, nowNs sdk.Int) bool {
	funded := rt.Or(rt.IntLe(zeroNs, lastNs),
		rt.IntLe(rt.IntMul(rt.IntOfI64(rate), rt.IntSub(zeroNs, lastNs)), rt.IntMul(dep, rt.IntOfI64(1000000000))))
	empty := rt.IntLe(zeroNs, nowNs)
	capped := rt.IntLe(zeroNs, rt.IntMul(maxTimeSec(), rt.IntOfI64(1000000000)))
	return rt.And(rt.And(rate >= 1, rt.And(capped, rt.IntLe(lastNs, nowNs))),
		rt.And(rt.IntLe(sdk.ZeroInt(), dep), rt.And(rt.Implies(rt.IntLt(sdk.ZeroInt(), dep), funded), rt.Implies(rt.IntEq(dep, sdk.ZeroInt()), empty))))
}

func invStreamOf(st streamtypes.Stream, now sdk.Int) bool {
	return invStream(st.Deposit.Amount, st.FlowRate, rt.TimeNanos(st.LastOutflowTime), rt.TimeNanos(st.DepositZeroTime), now)
}

// H_C10_Claim: one ClaimStream step from an arbitrary INV-S state.
func H_C10_Claim() {
	now := AnyBlockTime("now")
	se := NewStreamEnv(now)
	fee := AnyValidatorFee("valFee")
	_ = se.K.SetParams(se.Ctx, streamtypes.Params{ValidatorFee: fee})
	pre := setupStream(se, "nund")
	rt.Assume(rt.IntLt(sdk.ZeroInt(), pre.Deposit))
	srv := streamkeeper.NewMsgServerImpl(se.K)
	msg := &streamtypes.MsgClaimStream{Receiver: pre.Receiver.String(), Sender: pre.Sender.String()}
	rt.Assert("C12+C13.claim-message-passes-the-stateless-check", msg.ValidateBasic() == nil)

	var res *streamtypes.MsgClaimStreamResponse
	var err error
	panicked := rt.Catch(func() {
		res, err = srv.ClaimStream(sdk.WrapSDKContext(se.Ctx), msg)
	})
	// C12: a claim on a funded stream succeeds
	rt.Assert("C12.claim-no-panic", !panicked)
	if panicked {
		return
	}
	rt.Assert("C12.claim-succeeds", err == nil)
	if err != nil {
		return
	}
	rt.Reach("claim-ok")
	st, _ := se.K.GetStream(se.Ctx, pre.Receiver, pre.Sender)
	claimed := res.TotalClaimed.Amount
	// C11: exact release
	nowNs := rt.TimeNanos(now)
	secs := rt.IntDivFloor(rt.IntSub(nowNs, pre.Last), rt.IntOfI64(1000000000))
	due := rt.IntMin(pre.Deposit, rt.IntMul(secs, rt.IntOfI64(pre.Rate)))
	expected := rt.IteInt(rt.IntLt(nowNs, pre.Zero), due, pre.Deposit)
	rt.Assert("C11.claim-amount", rt.IntEq(claimed, expected))
	// C10: conservation
	feeAmt := res.ValidatorFee.Amount
	rt.Assert("C10.fee-floor", rt.IntEq(feeAmt, rt.IntDivFloor(rt.IntMul(claimed, rt.DecRawOf(fee)), sdk.NewIntFromUint64(1000000000000000000))))
	rt.Assert("C10.receiver-paid", rt.IntEq(se.Bank.Bal(pre.Receiver, "nund"), rt.IntSub(claimed, feeAmt)))
	rt.Assert("C10.feecollector-paid", rt.IntEq(se.Bank.Bal(se.FeeColl, "nund"), feeAmt))
	rt.Assert("C10.deposit-reduced", rt.IntEq(st.Deposit.Amount, rt.IntSub(pre.Deposit, claimed)))
	rt.Assert("C10.escrow-backed", rt.IntEq(se.Bank.Bal(se.Escrow, "nund"), rt.IntAdd(st.Deposit.Amount, pre.Other)))
	rt.Assert("C10.supply-unchanged", rt.IntEq(se.Bank.SupplyOf("nund"), rt.IntAdd(pre.Deposit, pre.Other)))
	// INV-S preserved
	rt.Assert("INV.last=now", st.LastOutflowTime.Equal(now))
	rt.Assert("INV.stream", invStreamOf(st, nowNs))
	rt.Assert("C12.cancellable-agreement-unchanged", st.Cancellable)
}

// maxTimeNs: the latest instant protobuf can encode (9999-12-31T23:59:59Z), in ns.
func maxTimeSec() sdk.Int { return sdk.NewInt(253402300799) }

// expectedZero: base + ext seconds, saturating at the latest encodable time.
func addSecsSat(baseNs sdk.Int, ext sdk.Int) sdk.Int {
	mx := rt.IntMul(maxTimeSec(), rt.IntOfI64(1000000000))
	z := rt.IntAdd(baseNs, rt.IntMul(ext, rt.IntOfI64(1000000000)))
	return rt.IteInt(rt.IntLe(z, mx), z, mx)
}

// H_C10_TopUp: one TopUpDeposit step (live or expired stream) by a sender who can afford it.
func H_C10_TopUp() {
	now := AnyBlockTime("now")
	se := NewStreamEnv(now)
	fee := AnyValidatorFee("valFee")
	_ = se.K.SetParams(se.Ctx, streamtypes.Params{ValidatorFee: fee})
	pre := setupStream(se, "nund")
	topup := rt.BigInt("topup", 1, 200)
	senderBal := rt.BigInt("senderBalance", 0, 201)
	rt.Assume(rt.IntLe(topup, senderBal))
	se.Bank.Fund(pre.Sender, "nund", senderBal)
	srv := streamkeeper.NewMsgServerImpl(se.K)
	msg := &streamtypes.MsgTopUpDeposit{Receiver: pre.Receiver.String(), Sender: pre.Sender.String(), Deposit: sdk.NewCoin("nund", topup)}
	rt.Assert("C12+C13.topup-message-passes-the-stateless-check", msg.ValidateBasic() == nil)
	nowNs := rt.TimeNanos(now)
	expired := rt.IntLe(pre.Zero, nowNs)
	ext := rt.IntDivFloor(topup, rt.IntOfI64(pre.Rate))

	var err error
	panicked := rt.Catch(func() {
		_, err = srv.TopUpDeposit(sdk.WrapSDKContext(se.Ctx), msg)
	})
	rt.Assert("C12.topup-no-panic", !panicked)
	if panicked {
		return
	}
	rt.Assert("C12.topup-succeeds", err == nil)
	if err != nil {
		return
	}
	rt.Reach("topup-ok")
	st, _ := se.K.GetStream(se.Ctx, pre.Receiver, pre.Sender)
	// what was released by the implied settlement (expired with deposit > 0): the whole remainder
	released := rt.IteInt(expired, pre.Deposit, sdk.ZeroInt())
	rt.Assert("C11.topup-settles-remainder", rt.IntEq(st.Deposit.Amount, rt.IntAdd(rt.IntSub(pre.Deposit, released), topup)))
	base := rt.IteInt(expired, nowNs, pre.Zero)
	rt.Assert("C11.topup-zero-time", rt.IntEq(rt.TimeNanos(st.DepositZeroTime), addSecsSat(base, ext)))
	rt.Assert("C10.sender-debited", rt.IntEq(se.Bank.Bal(pre.Sender, "nund"), rt.IntSub(senderBal, topup)))
	rt.Assert("C10.escrow-backed", rt.IntEq(se.Bank.Bal(se.Escrow, "nund"), rt.IntAdd(st.Deposit.Amount, pre.Other)))
	rt.Assert("C10.released-paid", rt.IntEq(rt.IntAdd(se.Bank.Bal(pre.Receiver, "nund"), se.Bank.Bal(se.FeeColl, "nund")), released))
	rt.Assert("INV.stream", invStreamOf(st, nowNs))
	rt.Assert("C12.cancellable-agreement-unchanged", st.Cancellable)
	rt.Assert("INV.rate-unchanged", st.FlowRate == pre.Rate)
	rt.Assert("C11.topup-flow-clock", rt.IntEq(rt.TimeNanos(st.LastOutflowTime), rt.IteInt(expired, nowNs, pre.Last)))
}

// H_C10_Update: one UpdateFlowRate step.
func H_C10_Update() {
	now := AnyBlockTime("now")
	se := NewStreamEnv(now)
	fee := AnyValidatorFee("valFee")
	_ = se.K.SetParams(se.Ctx, streamtypes.Params{ValidatorFee: fee})
	pre := setupStream(se, "nund")
	newRate := rt.I64("newRate")
	srv := streamkeeper.NewMsgServerImpl(se.K)
	msg := &streamtypes.MsgUpdateFlowRate{Receiver: pre.Receiver.String(), Sender: pre.Sender.String(), FlowRate: newRate}
	rt.Assert("C11+C12.update-stateless-check-is-rate>=1", rt.Iff(msg.ValidateBasic() == nil, newRate >= 1))
	rt.Assume(msg.ValidateBasic() == nil)
	nowNs := rt.TimeNanos(now)

	var err error
	panicked := rt.Catch(func() {
		_, err = srv.UpdateFlowRate(sdk.WrapSDKContext(se.Ctx), msg)
	})
	rt.Assert("C12.update-no-panic", !panicked)
	if panicked {
		return
	}
	rt.Assert("C12.update-succeeds", err == nil)
	if err != nil {
		return
	}
	rt.Reach("update-ok")
	st, _ := se.K.GetStream(se.Ctx, pre.Receiver, pre.Sender)
	secs := rt.IntDivFloor(rt.IntSub(nowNs, pre.Last), rt.IntOfI64(1000000000))
	due := rt.IntMin(pre.Deposit, rt.IntMul(secs, rt.IntOfI64(pre.Rate)))
	released := rt.IteInt(rt.IntLt(nowNs, pre.Zero), due, pre.Deposit)
	rt.Assert("C11.update-settles-old-rate", rt.IntEq(st.Deposit.Amount, rt.IntSub(pre.Deposit, released)))
	rt.Assert("C11.update-rate-set", st.FlowRate == newRate)
	ext := rt.IntDivFloor(st.Deposit.Amount, rt.IntOfI64(newRate))
	rt.Assert("C11.update-zero-time", rt.IntEq(rt.TimeNanos(st.DepositZeroTime), addSecsSat(nowNs, ext)))
	rt.Assert("C10.escrow-backed", rt.IntEq(se.Bank.Bal(se.Escrow, "nund"), rt.IntAdd(st.Deposit.Amount, pre.Other)))
	rt.Assert("C10.released-paid", rt.IntEq(rt.IntAdd(se.Bank.Bal(pre.Receiver, "nund"), se.Bank.Bal(se.FeeColl, "nund")), released))
	// (an empty stream has nothing flowing: its clock is restarted by the next top-up instead)
	rt.Assert("C11.update-restarts-flow-clock", rt.Implies(rt.IntLt(sdk.ZeroInt(), pre.Deposit), st.LastOutflowTime.Equal(now)))
	rt.Assert("INV.stream", invStreamOf(st, nowNs))
	rt.Assert("C12.cancellable-agreement-unchanged", st.Cancellable)
}

// H_C10_Cancel: one CancelStream step.
func H_C10_Cancel() {
	now := AnyBlockTime("now")
	se := NewStreamEnv(now)
	fee := AnyValidatorFee("valFee")
	_ = se.K.SetParams(se.Ctx, streamtypes.Params{ValidatorFee: fee})
	pre := setupStream(se, "nund")
	srv := streamkeeper.NewMsgServerImpl(se.K)
	msg := &streamtypes.MsgCancelStream{Receiver: pre.Receiver.String(), Sender: pre.Sender.String()}
	rt.Assert("C12+C13.cancel-message-passes-the-stateless-check", msg.ValidateBasic() == nil)
	nowNs := rt.TimeNanos(now)

	var err error
	panicked := rt.Catch(func() {
		_, err = srv.CancelStream(sdk.WrapSDKContext(se.Ctx), msg)
	})
	rt.Assert("C12.cancel-no-panic", !panicked)
	if panicked {
		return
	}
	rt.Assert("C12.cancel-succeeds", err == nil)
	if err != nil {
		return
	}
	rt.Reach("cancel-ok")
	_, found := se.K.GetStream(se.Ctx, pre.Receiver, pre.Sender)
	rt.Assert("C10.cancel-deletes", !found)
	secs := rt.IntDivFloor(rt.IntSub(nowNs, pre.Last), rt.IntOfI64(1000000000))
	due := rt.IntMin(pre.Deposit, rt.IntMul(secs, rt.IntOfI64(pre.Rate)))
	released := rt.IteInt(rt.IntLt(nowNs, pre.Zero), due, pre.Deposit)
	rt.Assert("C11.cancel-refund", rt.IntEq(se.Bank.Bal(pre.Sender, "nund"), rt.IntSub(pre.Deposit, released)))
	rt.Assert("C10.released-paid", rt.IntEq(rt.IntAdd(se.Bank.Bal(pre.Receiver, "nund"), se.Bank.Bal(se.FeeColl, "nund")), released))
	rt.Assert("C10.escrow-backed", rt.IntEq(se.Bank.Bal(se.Escrow, "nund"), pre.Other))
}

// H_C10_Create: CreateStream from a state without a stream for the pair.
func H_C10_Create() {
	now := AnyBlockTime("now")
	se := NewStreamEnv(now)
	recv, send := Addr(0), Addr(1)
	se.Bank.AddBase(recv)
	se.Bank.AddBase(send)
	other := rt.BigInt("otherDeposits", 0, 200)
	se.Bank.Fund(se.Escrow, "nund", other)
	dep := rt.BigInt("deposit", 0, 200)
	rate := rt.I64("rate")
	senderBal := rt.BigInt("senderBalance", 0, 201)
	se.Bank.Fund(send, "nund", senderBal)
	srv := streamkeeper.NewMsgServerImpl(se.K)
	msg := &streamtypes.MsgCreateStream{Receiver: recv.String(), Sender: send.String(), Deposit: sdk.NewCoin("nund", dep), FlowRate: rate}
	// the stateless check admits exactly: positive deposit, rate >= 1, at least one minute of funding
	safeRate := rt.IteI64(rate >= 1, rate, 1)
	longEnough := rt.IntLe(sdk.NewInt(60), rt.IntDivFloor(dep, rt.IntOfI64(safeRate)))
	rt.Assert("C11+C12.create-stateless-check-is-the-documented-rule", rt.Iff(msg.ValidateBasic() == nil,
		rt.And(rt.IntLt(sdk.ZeroInt(), dep), rt.And(rate >= 1, longEnough))))
	rt.Assume(msg.ValidateBasic() == nil)
	nowNs := rt.TimeNanos(now)

	var err error
	panicked := rt.Catch(func() {
		_, err = srv.CreateStream(sdk.WrapSDKContext(se.Ctx), msg)
	})
	rt.Assert("C12.create-no-panic", !panicked)
	if panicked {
		return
	}
	st, found := se.K.GetStream(se.Ctx, recv, send)
	if err != nil {
		rt.Reach("create-rejected")
		return
	}
	rt.Reach("create-ok")
	rt.Assert("C10.create-stored", found)
	rt.Assert("C11.create-min-duration", rt.IntLe(rt.IntMul(rt.IntOfI64(60), rt.IntOfI64(rate)), dep))
	rt.Assert("C10.create-deposit", rt.IntEq(st.Deposit.Amount, dep))
	ext := rt.IntDivFloor(dep, rt.IntOfI64(rate))
	rt.Assert("C11.create-zero-time", rt.IntEq(rt.TimeNanos(st.DepositZeroTime), addSecsSat(nowNs, ext)))
	rt.Assert("C11.create-last=now", st.LastOutflowTime.Equal(now))
	rt.Assert("C10.sender-debited", rt.IntEq(se.Bank.Bal(send, "nund"), rt.IntSub(senderBal, dep)))
	rt.Assert("C10.escrow-backed", rt.IntEq(se.Bank.Bal(se.Escrow, "nund"), rt.IntAdd(dep, other)))
	rt.Assert("INV.stream", invStreamOf(st, nowNs))
	rt.Assert("C12.cancellable-agreement-unchanged", st.Cancellable)
}
