package h

import (
	sdk "github.com/cosmos/cosmos-sdk/types"

	streamkeeper "github.com/unification-com/mainchain/x/stream/keeper"
	streamtypes "github.com/unification-com/mainchain/x/stream/types"
	"github.com/unification-com/mainchain/zz_verif/rt"
)

// symbolic stream satisfying INV-S, stored with the real setter, with the escrow funded to back it
// (plus a symbolic remainder standing for all other streams of the same denom).
type streamPre struct {
	Deposit  sdk.Int
	Rate     int64
	Last     sdk.Int // ns, exact
	Zero     sdk.Int
	Other    sdk.Int
	Receiver sdk.AccAddress
	Sender   sdk.AccAddress
}

func setupStream(se *StreamEnv, denom string) streamPre {
	recv, send := Addr(0), Addr(1)
	se.Bank.AddBase(recv)
	se.Bank.AddBase(send)
	dep := rt.BigInt("deposit", 0, 200)
	rate := rt.I64("rate")
	rt.Assume(rate >= 1)
	last := rt.Time("last")
	zero := rt.Time("zero")
	rt.Assume(!last.After(se.Now))
	// INV-S funding invariant: deposit·1e9 >= rate·(zero − last) [ns] whenever zero > last
	lastNs, zeroNs := rt.TimeNanos(last), rt.TimeNanos(zero)
	rt.Assume(rt.Or(rt.IntLe(zeroNs, lastNs),
		rt.IntLe(rt.IntMul(rt.IntOfI64(rate), rt.IntSub(zeroNs, lastNs)), rt.IntMul(dep, rt.IntOfI64(1000000000)))))
	st := streamtypes.Stream{
		Deposit:         sdk.NewCoin(denom, dep),
		FlowRate:        rate,
		LastOutflowTime: last,
		DepositZeroTime: zero,
		Cancellable:     true,
	}
	_ = se.K.SetStream(se.Ctx, recv, send, st)
	other := rt.BigInt("otherDeposits", 0, 200)
	se.Bank.Fund(se.Escrow, denom, dep.Add(other))
	return streamPre{Deposit: dep, Rate: rate, Last: lastNs, Zero: zeroNs, Other: other, Receiver: recv, Sender: send}
}

// H_C10_Claim: one ClaimStream step from an arbitrary INV-S state.
func H_C10_Claim() {
	now := rt.Time("now")
	se := NewStreamEnv(now)
	fee := AnyValidatorFee("valFee")
	_ = se.K.SetParams(se.Ctx, streamtypes.Params{ValidatorFee: fee})
	pre := setupStream(se, "nund")
	rt.Assume(rt.IntLt(sdk.ZeroInt(), pre.Deposit))
	srv := streamkeeper.NewMsgServerImpl(se.K)
	msg := &streamtypes.MsgClaimStream{Receiver: pre.Receiver.String(), Sender: pre.Sender.String()}

	var res *streamtypes.MsgClaimStreamResponse
	var err error
	panicked := rt.Catch(func() {
		res, err = srv.ClaimStream(sdk.WrapSDKContext(se.Ctx), msg)
	})
	// C12: a claim on a funded stream succeeds
	rt.Assert("C12.claim-no-panic", !panicked)
	if panicked {
		return
	}
	rt.Assert("C12.claim-succeeds", err == nil)
	if err != nil {
		return
	}
	rt.Reach("claim-ok")
	st, _ := se.K.GetStream(se.Ctx, pre.Receiver, pre.Sender)
	claimed := res.TotalClaimed.Amount
	// C11: exact release
	nowNs := rt.TimeNanos(now)
	secs := rt.IntDivFloor(rt.IntSub(nowNs, pre.Last), rt.IntOfI64(1000000000))
	due := rt.IntMin(pre.Deposit, rt.IntMul(secs, rt.IntOfI64(pre.Rate)))
	expected := rt.IteInt(rt.IntLt(nowNs, pre.Zero), due, pre.Deposit)
	rt.Assert("C11.claim-amount", rt.IntEq(claimed, expected))
	// C10: conservation
	feeAmt := res.ValidatorFee.Amount
	rt.Assert("C10.fee-floor", rt.IntEq(feeAmt, rt.IntDivFloor(rt.IntMul(claimed, rt.DecRawOf(fee)), sdk.NewIntFromUint64(1000000000000000000))))
	rt.Assert("C10.receiver-paid", rt.IntEq(se.Bank.Bal(pre.Receiver, "nund"), rt.IntSub(claimed, feeAmt)))
	rt.Assert("C10.feecollector-paid", rt.IntEq(se.Bank.Bal(se.FeeColl, "nund"), feeAmt))
	rt.Assert("C10.deposit-reduced", rt.IntEq(st.Deposit.Amount, rt.IntSub(pre.Deposit, claimed)))
	rt.Assert("C10.escrow-backed", rt.IntEq(se.Bank.Bal(se.Escrow, "nund"), rt.IntAdd(st.Deposit.Amount, pre.Other)))
	rt.Assert("C10.supply-unchanged", rt.IntEq(se.Bank.SupplyOf("nund"), rt.IntAdd(pre.Deposit, pre.Other)))
	// INV-S preserved
	rt.Assert("INV.last=now", st.LastOutflowTime.Equal(now))
	rt.Assert("INV.funding", rt.Or(rt.IntLe(pre.Zero, nowNs),
		rt.IntLe(rt.IntMul(rt.IntOfI64(pre.Rate), rt.IntSub(pre.Zero, nowNs)), rt.IntMul(st.Deposit.Amount, rt.IntOfI64(1000000000)))))
}
