package h

import (
	"strings"
	"time"

	storetypes "github.com/cosmos/cosmos-sdk/store/types"
	sdk "github.com/cosmos/cosmos-sdk/types"

	beaconkeeper "github.com/unification-com/mainchain/x/beacon/keeper"
	beacontypes "github.com/unification-com/mainchain/x/beacon/types"
	"github.com/unification-com/mainchain/zz_verif/model"
	"github.com/unification-com/mainchain/zz_verif/rt"
)

// ---------- BEACON environment and INV-B pre-state ----------

type BeaconEnv struct {
	*Env
	K      beaconkeeper.Keeper
	Key    *storetypes.KVStoreKey
	Params beacontypes.Params
}

func AnyBeaconParams(tag string) beacontypes.Params {
	return beacontypes.Params{
		FeeRegister:         rt.U64(tag + ".feeRegister"),
		FeeRecord:           rt.U64(tag + ".feeRecord"),
		FeePurchaseStorage:  rt.U64(tag + ".feePurchase"),
		Denom:               "nund",
		DefaultStorageLimit: rt.U64(tag + ".defaultLimit"),
		MaxStorageLimit:     rt.U64(tag + ".maxLimit"),
	}
}

func NewBeaconEnv(now time.Time) *BeaconEnv { return NewBeaconEnvOn(NewEnv(now, false), "p") }

func NewBeaconEnvOn(e *Env, tag string) *BeaconEnv {
	key := storetypes.NewKVStoreKey(beacontypes.StoreKey)
	k := beaconkeeper.NewKeeper(key, rt.Codec(), Authority())
	be := &BeaconEnv{Env: e, K: k, Key: key}
	be.Params = AnyBeaconParams(tag)
	rt.Assume(be.Params.Validate() == nil)
	_ = k.SetParams(e.Ctx, be.Params)
	return be
}

func (be *BeaconEnv) Store() *model.MemStore { return be.MS.Store(beacontypes.StoreKey) }

// beaconPre: one BEACON `ID` owned by Addr(0) with N in-state timestamps First…First+N-1 (INV-B),
// limit L, plus a foreign BEACON `ID2` owned by Addr(1) holding one timestamp with id G.
type beaconPre struct {
	ID, ID2, Highest uint64
	N                int
	First            uint64
	T                [3]beacontypes.BeaconTimestamp
	L, L2            uint64
	B, B2            beacontypes.Beacon
	G                uint64
	GT               beacontypes.BeaconTimestamp
}

func anyTimestamp(tag string, id uint64) beacontypes.BeaconTimestamp {
	return beacontypes.BeaconTimestamp{TimestampId: id, SubmitTime: rt.U64(tag + ".st"), Hash: rt.Str(tag + ".hash")}
}

func setupBeacon(be *BeaconEnv, maxN int) beaconPre {
	var pre beaconPre
	k, ctx := be.K, be.Ctx
	pre.ID, pre.ID2, pre.Highest = rt.U64("id"), rt.U64("id2"), rt.U64("highest")
	rt.Assume(rt.And(pre.ID >= 1, rt.And(pre.ID2 >= 1, pre.ID != pre.ID2)))
	rt.Assume(rt.And(pre.ID < pre.Highest, pre.ID2 < pre.Highest))
	k.SetHighestBeaconID(ctx, pre.Highest)
	pre.N = rt.Choose(maxN + 1)
	pre.First = rt.U64("first")
	// stated bound: fewer than 2^64-4 timestamps ever recorded per BEACON
	rt.Assume(rt.And(pre.First >= 1, pre.First < 18446744073709551610))
	for i := 0; i < pre.N; i++ {
		pre.T[i] = anyTimestamp("t"+string(rune('0'+i)), pre.First+uint64(i))
		_ = k.SetBeaconTimestamp(ctx, pre.ID, pre.T[i])
	}
	pre.L = rt.U64("limit")
	rt.Assume(rt.And(pre.L >= 1, uint64(pre.N) <= pre.L))
	_ = k.SetBeaconStorageLimit(ctx, pre.ID, pre.L)
	last, first := uint64(0), uint64(0)
	if pre.N > 0 {
		last, first = pre.First+uint64(pre.N-1), pre.First
	}
	pre.B = beacontypes.Beacon{BeaconId: pre.ID, Moniker: rt.Str("b.moniker"), Name: rt.Str("b.name"),
		LastTimestampId: last, FirstIdInState: first, NumInState: uint64(pre.N), RegTime: rt.U64("b.regtime"), Owner: Addr(0).String()}
	_ = k.SetBeacon(ctx, pre.B)
	pre.G = rt.U64("g")
	rt.Assume(rt.And(pre.G >= 1, pre.G < 18446744073709551610))
	pre.GT = anyTimestamp("gt", pre.G)
	_ = k.SetBeaconTimestamp(ctx, pre.ID2, pre.GT)
	pre.L2 = rt.U64("limit2")
	rt.Assume(pre.L2 >= 1)
	_ = k.SetBeaconStorageLimit(ctx, pre.ID2, pre.L2)
	pre.B2 = beacontypes.Beacon{BeaconId: pre.ID2, Moniker: rt.Str("b2.moniker"), Name: rt.Str("b2.name"),
		LastTimestampId: pre.G, FirstIdInState: pre.G, NumInState: 1, RegTime: rt.U64("b2.regtime"), Owner: Addr(1).String()}
	_ = k.SetBeacon(ctx, pre.B2)
	return pre
}

func beaconForeignUntouched(be *BeaconEnv, pre beaconPre) bool {
	b2, f2 := be.K.GetBeacon(be.Ctx, pre.ID2)
	gt, fg := be.K.GetBeaconTimestampByID(be.Ctx, pre.ID2, pre.G)
	l2, fl := be.K.GetBeaconStorageLimit(be.Ctx, pre.ID2)
	return rt.And(rt.And(f2, b2 == pre.B2), rt.And(rt.And(fg, gt == pre.GT), rt.And(fl, l2.InStateLimit == pre.L2)))
}

func beaconIdentityUnchanged(a, b beacontypes.Beacon) bool {
	return rt.And(rt.And(a.BeaconId == b.BeaconId, a.Moniker == b.Moniker), rt.And(a.Name == b.Name, rt.And(a.Owner == b.Owner, a.RegTime == b.RegTime)))
}

// H_C07_BeaconRecord: one RecordBeaconTimestamp step from an arbitrary INV-B state.
func H_C07_BeaconRecord() {
	now := AnyBlockTime("now")
	be := NewBeaconEnv(now)
	maxN := 2
	if rt.Thorough() {
		maxN = 3
	}
	pre := setupBeacon(be, maxN)
	signer := rt.Choose(3)
	msg := &beacontypes.MsgRecordBeaconTimestamp{BeaconId: rt.U64("m.id"), Hash: rt.Str("m.hash"), SubmitTime: rt.U64("m.subtime"), Owner: Addr(signer).String()}
	rt.Assume(msg.ValidateBasic() == nil)
	snap := be.MS.Snapshot()
	srv := beaconkeeper.NewMsgServerImpl(be.K)
	var err error
	var res *beacontypes.MsgRecordBeaconTimestampResponse
	panicked := rt.Catch(func() {
		res, err = srv.RecordBeaconTimestamp(sdk.WrapSDKContext(be.Ctx), msg)
	})
	rt.Assert("C14.record-no-panic", !panicked)
	if panicked {
		return
	}
	onMain := msg.BeaconId == pre.ID
	onForeign := msg.BeaconId == pre.ID2
	expectOK := rt.Or(rt.And(onMain, signer == 0), rt.And(onForeign, signer == 1))
	rt.Assert("C07.record-accepted-iff-owner", rt.Iff(err == nil, expectOK))
	rt.Assert("C13.record-only-owner", rt.Implies(err == nil, expectOK))
	rt.Assert("C09.record-unknown-id-rejected", rt.Implies(rt.And(!onMain, !onForeign), err != nil))
	if err != nil {
		rt.Reach("record-rejected")
		rt.Assert("C07+C09+C13+C14.rejected-changes-nothing", be.MS.SameAs(snap))
		return
	}
	if !onMain {
		rt.Reach("record-on-foreign")
		rt.Assert("C07.foreign-id-consecutive", res.TimestampId == pre.G+1)
		return
	}
	rt.Reach("record-ok")
	n := uint64(pre.N)
	newID := pre.B.LastTimestampId + 1
	rt.Assert("C07.ids-consecutive-from-1", rt.And(res.TimestampId == newID, res.BeaconId == pre.ID))
	pruned := n+1 > pre.L
	for i := 0; i < pre.N; i++ {
		ts, found := be.K.GetBeaconTimestampByID(be.Ctx, pre.ID, pre.First+uint64(i))
		if i == 0 {
			rt.Assert("C08.prune-oldest-iff-over-limit", rt.Iff(found, !pruned))
		} else {
			rt.Assert("C07.old-record-kept", found)
		}
		rt.Assert("C07+C18.old-record-unchanged", rt.Implies(found, ts == pre.T[i]))
	}
	if pruned {
		rt.Reach("record-pruned")
	} else {
		rt.Reach("record-not-pruned")
	}
	nt, found := be.K.GetBeaconTimestampByID(be.Ctx, pre.ID, newID)
	rt.Assert("C07+C09.new-record-exact", rt.And(found, nt == beacontypes.BeaconTimestamp{TimestampId: newID, SubmitTime: msg.SubmitTime, Hash: msg.Hash}))
	b, _ := be.K.GetBeacon(be.Ctx, pre.ID)
	all := be.K.GetAllBeaconTimestamps(be.Ctx, pre.ID)
	rt.Assert("INV.num-matches-store", b.NumInState == uint64(len(all)))
	rt.Assert("INV.num=min(n+1,limit)", b.NumInState == rt.IteU64(pruned, n, n+1))
	rt.Assert("INV.within-limit", b.NumInState <= pre.L)
	rt.Assert("INV.last=new", b.LastTimestampId == newID)
	if len(all) > 0 {
		rt.Assert("INV.first=first-in-store", b.FirstIdInState == all[0].TimestampId)
		rt.Assert("INV.last-in-store=new", all[len(all)-1].TimestampId == newID)
	}
	for i := 1; i < len(all); i++ {
		rt.Assert("INV.in-state-contiguous", all[i].TimestampId == all[i-1].TimestampId+1)
	}
	rt.Assert("C09.identity-immutable", beaconIdentityUnchanged(b, pre.B))
	l, fl := be.K.GetBeaconStorageLimit(be.Ctx, pre.ID)
	rt.Assert("C08.limit-unchanged-by-record", rt.And(fl, l.InStateLimit == pre.L))
	hi, _ := be.K.GetHighestBeaconID(be.Ctx)
	rt.Assert("C09.highest-unchanged", hi == pre.Highest)
	rt.Assert("C07+C09+C18.foreign-untouched", beaconForeignUntouched(be, pre))
	rt.Assert("C16.params-untouched", be.K.GetParams(be.Ctx) == be.Params)
}

// H_C08_BeaconPurchase: one PurchaseBeaconStateStorage step.
func H_C08_BeaconPurchase() {
	now := AnyBlockTime("now")
	be := NewBeaconEnv(now)
	pre := setupBeacon(be, 1)
	signer := rt.Choose(3)
	msg := &beacontypes.MsgPurchaseBeaconStateStorage{BeaconId: rt.U64("m.id"), Number: rt.U64("m.number"), Owner: Addr(signer).String()}
	rt.Assume(msg.ValidateBasic() == nil)
	snap := be.MS.Snapshot()
	srv := beaconkeeper.NewMsgServerImpl(be.K)
	var err error
	var res *beacontypes.MsgPurchaseBeaconStateStorageResponse
	panicked := rt.Catch(func() {
		res, err = srv.PurchaseBeaconStateStorage(sdk.WrapSDKContext(be.Ctx), msg)
	})
	rt.Assert("C14.purchase-no-panic", !panicked)
	if panicked {
		return
	}
	onMain := msg.BeaconId == pre.ID
	onForeign := msg.BeaconId == pre.ID2
	rt.Assert("C13.purchase-only-owner", rt.Implies(err == nil, rt.Or(rt.And(onMain, signer == 0), rt.And(onForeign, signer == 1))))
	if err != nil {
		rt.Reach("purchase-rejected")
		rt.Assert("C08+C09+C13+C14.rejected-changes-nothing", be.MS.SameAs(snap))
		return
	}
	if !onMain {
		return
	}
	rt.Reach("purchase-ok")
	l, fl := be.K.GetBeaconStorageLimit(be.Ctx, pre.ID)
	max := rt.IntOfU64(be.Params.MaxStorageLimit)
	newL := rt.IntAdd(rt.IntOfU64(pre.L), rt.IntOfU64(msg.Number))
	rt.Assert("C08.limit-raised-by-exactly-number", rt.And(fl, rt.IntEq(rt.IntOfU64(l.InStateLimit), newL)))
	rt.Assert("C08.limit-never-above-max", rt.IntLe(rt.IntOfU64(l.InStateLimit), max))
	rt.Assert("C08.limit-only-upward", l.InStateLimit > pre.L)
	rt.Assert("C08.remaining=max-limit", rt.IntEq(rt.IntOfU64(res.NumCanPurchase), rt.IntMax(sdk.ZeroInt(), rt.IntSub(max, rt.IntOfU64(l.InStateLimit)))))
	rt.Assert("C08.response", rt.And(res.BeaconId == pre.ID, res.NumberPurchased == msg.Number))
	b, _ := be.K.GetBeacon(be.Ctx, pre.ID)
	rt.Assert("C09.purchase-leaves-beacon", b == pre.B)
	rt.Assert("C07+C09+C18.foreign-untouched", beaconForeignUntouched(be, pre))
	for i := 0; i < pre.N; i++ {
		ts, found := be.K.GetBeaconTimestampByID(be.Ctx, pre.ID, pre.First+uint64(i))
		rt.Assert("C07+C18.old-record-unchanged", rt.And(found, ts == pre.T[i]))
	}
}

// H_C09_BeaconRegister: one RegisterBeacon step.
func H_C09_BeaconRegister() {
	now := AnyBlockTime("now")
	be := NewBeaconEnv(now)
	pre := setupBeacon(be, 1)
	signer := rt.Choose(3)
	owner := Addr(signer).String()
	if rt.Choose(2) == 1 {
		owner = strings.ToUpper(owner) // bech32 also accepts the all-upper-case spelling of the same address
	}
	moniker := rt.Str("m.moniker")
	if rt.Choose(2) == 1 {
		moniker = " spaced moniker " // surrounding whitespace is accepted by ValidateBasic and must be stored as submitted
	}
	msg := &beacontypes.MsgRegisterBeacon{Moniker: moniker, Name: rt.Str("m.name"), Owner: owner}
	rt.Assume(msg.ValidateBasic() == nil)
	rt.Assume(pre.Highest < 18446744073709551615)
	srv := beaconkeeper.NewMsgServerImpl(be.K)
	var err error
	var res *beacontypes.MsgRegisterBeaconResponse
	panicked := rt.Catch(func() {
		res, err = srv.RegisterBeacon(sdk.WrapSDKContext(be.Ctx), msg)
	})
	rt.Assert("C14.register-no-panic", !panicked)
	if panicked {
		return
	}
	rt.Assert("C09.valid-registration-succeeds", err == nil)
	if err != nil {
		return
	}
	rt.Reach("register-ok")
	rt.Assert("C09.id=next-unused", res.BeaconId == pre.Highest)
	hi, _ := be.K.GetHighestBeaconID(be.Ctx)
	rt.Assert("C09.highest-incremented", hi == pre.Highest+1)
	b, found := be.K.GetBeacon(be.Ctx, pre.Highest)
	want := beacontypes.Beacon{BeaconId: pre.Highest, Moniker: msg.Moniker, Name: msg.Name, RegTime: uint64(now.Unix()), Owner: Addr(signer).String()}
	rt.Assert("C09+C20.stored-exactly-submitted-owner-canonical", rt.And(found, b == want))
	l, fl := be.K.GetBeaconStorageLimit(be.Ctx, pre.Highest)
	rt.Assert("C08.limit-starts-at-default", rt.And(fl, l.InStateLimit == be.Params.DefaultStorageLimit))
	old, _ := be.K.GetBeacon(be.Ctx, pre.ID)
	rt.Assert("C09.existing-untouched", old == pre.B)
	ol, _ := be.K.GetBeaconStorageLimit(be.Ctx, pre.ID)
	rt.Assert("C08.existing-limit-untouched", ol.InStateLimit == pre.L)
	rt.Assert("C07+C09+C18.foreign-untouched", beaconForeignUntouched(be, pre))
	for i := 0; i < pre.N; i++ {
		ts, f := be.K.GetBeaconTimestampByID(be.Ctx, pre.ID, pre.First+uint64(i))
		rt.Assert("C07+C18.old-record-unchanged", rt.And(f, ts == pre.T[i]))
	}
}

// H_C08_BeaconStorageQuery: remaining purchasable capacity = max(0, maximum − limit).
func H_C08_BeaconStorageQuery() {
	now := AnyBlockTime("now")
	be := NewBeaconEnv(now)
	pre := setupBeacon(be, 1)
	writes := be.MS.TotalWrites()
	max := rt.IntOfU64(be.Params.MaxStorageLimit)
	want := rt.IntMax(sdk.ZeroInt(), rt.IntSub(max, rt.IntOfU64(pre.L)))
	rt.Assert("C08.keeper-remaining=max(0,max-limit)", rt.IntEq(rt.IntOfU64(be.K.GetMaxPurchasableSlots(be.Ctx, pre.ID)), want))
	res, err := be.K.BeaconStorage(sdk.WrapSDKContext(be.Ctx), &beacontypes.QueryBeaconStorageRequest{BeaconId: pre.ID})
	rt.Assert("C08.query-ok", err == nil)
	if err != nil {
		return
	}
	rt.Reach("query-ok")
	rt.Assert("C08.query-remaining=max(0,max-limit)", rt.IntEq(rt.IntOfU64(res.MaxPurchasable), want))
	rt.Assert("C08.query-counters", rt.And(rt.And(res.CurrentLimit == pre.L, res.CurrentUsed == uint64(pre.N)), rt.And(res.Max == be.Params.MaxStorageLimit, rt.And(res.Owner == pre.B.Owner, res.BeaconId == pre.ID))))
	rt.Assert("C20.query-writes-nothing", be.MS.TotalWrites() == writes)
}
