package h

import (
	"bytes"

	wrktypes "github.com/unification-com/mainchain/x/wrkchain/types"
	"github.com/unification-com/mainchain/zz_verif/rt"
)

// H_C18_WrkKeysInjective: equal WRKChain store keys imply equal logical identifiers, across all
// four sections, for all 64-bit ids/heights.
func H_C18_WrkKeysInjective() {
	id1, id2 := rt.U64("id1"), rt.U64("id2")
	h1, h2 := rt.U64("h1"), rt.U64("h2")

	rt.Assert("wrkchain-key-injective", rt.Implies(bytes.Equal(wrktypes.WrkChainKey(id1), wrktypes.WrkChainKey(id2)), id1 == id2))
	rt.Assert("limit-key-injective", rt.Implies(bytes.Equal(wrktypes.WrkChainStorageLimitKey(id1), wrktypes.WrkChainStorageLimitKey(id2)), id1 == id2))
	rt.Assert("block-key-injective", rt.Implies(bytes.Equal(wrktypes.WrkChainBlockKey(id1, h1), wrktypes.WrkChainBlockKey(id2, h2)), rt.And(id1 == id2, h1 == h2)))
	// sections never collide
	rt.Assert("sections-disjoint-1", !bytes.Equal(wrktypes.WrkChainKey(id1), wrktypes.WrkChainStorageLimitKey(id2)))
	rt.Assert("sections-disjoint-2", !bytes.Equal(wrktypes.WrkChainKey(id1), wrktypes.WrkChainAllBlocksKey(id2)))
	rt.Assert("sections-disjoint-3", !bytes.HasPrefix(wrktypes.WrkChainKey(id1), wrktypes.HighestWrkChainIDKey))
	rt.Assert("sections-disjoint-4", !bytes.HasPrefix(wrktypes.WrkChainBlockKey(id1, h1), wrktypes.ParamsKey))
	// a block key of chain id1 lies under the iteration prefix of chain id2 only if id1 == id2
	rt.Assert("block-prefix-owner", rt.Implies(bytes.HasPrefix(wrktypes.WrkChainBlockKey(id1, h1), wrktypes.WrkChainAllBlocksKey(id2)), id1 == id2))
	// byte order == numeric order
	rt.Assert("block-order", rt.Iff(bytes.Compare(wrktypes.WrkChainBlockKey(id1, h1), wrktypes.WrkChainBlockKey(id1, h2)) < 0, h1 < h2))
	rt.Assert("chain-order", rt.Iff(bytes.Compare(wrktypes.WrkChainKey(id1), wrktypes.WrkChainKey(id2)) < 0, id1 < id2))
	rt.Assert("id-roundtrip", wrktypes.GetWrkChainIDFromBytes(wrktypes.GetWrkChainIDBytes(id1)) == id1)
	rt.Reach("end")
}
