package h

import (
	sdk "github.com/cosmos/cosmos-sdk/types"
	paramtypes "github.com/cosmos/cosmos-sdk/x/params/types"

	beaconkeeper "github.com/unification-com/mainchain/x/beacon/keeper"
	beacontypes "github.com/unification-com/mainchain/x/beacon/types"
	entkeeper "github.com/unification-com/mainchain/x/enterprise/keeper"
	enttypes "github.com/unification-com/mainchain/x/enterprise/types"
	wrkkeeper "github.com/unification-com/mainchain/x/wrkchain/keeper"
	wrktypes "github.com/unification-com/mainchain/x/wrkchain/types"
	"github.com/unification-com/mainchain/zz_verif/model"
	"github.com/unification-com/mainchain/zz_verif/rt"
)

// legacySubspace stands in for the x/params subspace the modules kept their parameters in before
// consensus version 3: GetParamSet fills the caller's struct with the legacy values.
type legacySubspace struct {
	ent    *enttypes.Params
	wrk    *wrktypes.Params
	beacon *beacontypes.Params
}

func (l legacySubspace) GetParamSet(_ sdk.Context, ps paramtypes.ParamSet) {
	switch p := ps.(type) {
	case *enttypes.Params:
		*p = *l.ent
	case *wrktypes.Params:
		*p = *l.wrk
	case *beacontypes.Params:
		*p = *l.beacon
	}
}

// withoutKey: a copy of the store with one key removed.
func withoutKey(s *model.MemStore, key []byte) *model.MemStore {
	c := s.Clone()
	c.Delete(key)
	return c
}

// H_C16_EntMigration: the in-place store migration 2 -> 3 (upgrade handler path) moves the legacy
// parameters into the module store: afterwards the module reads exactly the legacy values, they
// are valid, and nothing else in the store (orders, queues, books, whitelist) was touched. Invalid
// legacy values abort the migration without writing.
func H_C16_EntMigration() {
	now := AnyBlockTime("now")
	ee := NewEntEnvOn(NewEnv(now, false), 0)
	k, ctx := ee.K, ee.Ctx
	setupBooksOpt(ee, true)
	k.SetHighestPurchaseOrderID(ctx, 3)
	po := enttypes.EnterpriseUndPurchaseOrder{Id: 2, Purchaser: Addr(0).String(), Amount: sdk.NewCoin("nund", rt.BigInt("po.amount", 1, 128)), Status: enttypes.StatusRaised, RaiseTime: uint64(now.Unix())}
	_ = k.SetPurchaseOrder(ctx, po)
	k.AddPoToRaisedQueue(ctx, 2)
	store := ee.MS.Store(enttypes.StoreKey)
	store.Delete(enttypes.ParamsKey) // pre-upgrade: the module store holds no parameters yet
	legacy := ee.Params
	if rt.Choose(2) == 1 {
		legacy = enttypes.Params{EntSigners: ee.Params.EntSigners, Denom: rt.Str("l.denom"), MinAccepts: rt.U64("l.minAccepts"), DecisionTimeLimit: rt.U64("l.decisionLimit")}
	}
	valid := legacy.Validate() == nil
	snap := store.Clone()
	err := entkeeper.NewMigrator(k, legacySubspace{ent: &legacy}).Migrate2to3(ctx)
	rt.Assert("C16.ent-migration-succeeds-iff-legacy-valid", rt.Iff(err == nil, valid))
	if err != nil {
		rt.Assert("C16.ent-failed-migration-writes-nothing", store.SameAs(snap))
		rt.Reach("rejected")
		return
	}
	rt.Assert("C16.ent-migrated-params=legacy", k.GetParams(ctx) == legacy)
	rt.Assert("C16.ent-migrated-params-valid", k.GetParams(ctx).Validate() == nil)
	rt.Assert("C14+C16.ent-migration-touches-only-params", withoutKey(store, enttypes.ParamsKey).SameAs(snap))
	rt.Reach("migrated")
}

func H_C16_WrkMigration() {
	now := AnyBlockTime("now")
	we := NewWrkEnv(now)
	setupWrk(we, 1)
	store := we.MS.Store(wrktypes.StoreKey)
	store.Delete(wrktypes.ParamsKey)
	legacy := anyWrkParamsFull("l")
	valid := legacy.Validate() == nil
	snap := store.Clone()
	err := wrkkeeper.NewMigrator(we.K, legacySubspace{wrk: &legacy}).Migrate2to3(we.Ctx)
	rt.Assert("C16.wrk-migration-succeeds-iff-legacy-valid", rt.Iff(err == nil, valid))
	if err != nil {
		rt.Assert("C16.wrk-failed-migration-writes-nothing", store.SameAs(snap))
		rt.Reach("rejected")
		return
	}
	rt.Assert("C16.wrk-migrated-params=legacy", we.K.GetParams(we.Ctx) == legacy)
	rt.Assert("C07+C08+C16.wrk-migration-touches-only-params", withoutKey(store, wrktypes.ParamsKey).SameAs(snap))
	rt.Reach("migrated")
}

func H_C16_BeaconMigration() {
	now := AnyBlockTime("now")
	be := NewBeaconEnv(now)
	setupBeacon(be, 1)
	store := be.MS.Store(beacontypes.StoreKey)
	store.Delete(beacontypes.ParamsKey)
	legacy := anyBeaconParamsFull("l")
	valid := legacy.Validate() == nil
	snap := store.Clone()
	err := beaconkeeper.NewMigrator(be.K, legacySubspace{beacon: &legacy}).Migrate2to3(be.Ctx)
	rt.Assert("C16.beacon-migration-succeeds-iff-legacy-valid", rt.Iff(err == nil, valid))
	if err != nil {
		rt.Assert("C16.beacon-failed-migration-writes-nothing", store.SameAs(snap))
		rt.Reach("rejected")
		return
	}
	rt.Assert("C16.beacon-migrated-params=legacy", be.K.GetParams(be.Ctx) == legacy)
	rt.Assert("C07+C08+C16.beacon-migration-touches-only-params", withoutKey(store, beacontypes.ParamsKey).SameAs(snap))
	rt.Reach("migrated")
}
