package h

import (
	sdk "github.com/cosmos/cosmos-sdk/types"

	entkeeper "github.com/unification-com/mainchain/x/enterprise/keeper"
	enttypes "github.com/unification-com/mainchain/x/enterprise/types"
	streamkeeper "github.com/unification-com/mainchain/x/stream/keeper"
	streamtypes "github.com/unification-com/mainchain/x/stream/types"
	"github.com/unification-com/mainchain/zz_verif/rt"
)

// H_C04_Invariant: the registered enterprise invariant (what the crisis module asserts at genesis
// and on MsgVerifyInvariant — a false "broken" halts the chain) reports broken exactly when the
// three figures differ: escrow balance, stored total, sum of the per-account records. The three are
// independent symbolic values here (the state need not be reachable).
func H_C04_Invariant() {
	now := AnyBlockTime("now")
	ee := NewEntEnvOn(NewEnv(now, false), 1)
	k, ctx := ee.K, ee.Ctx
	sum := sdk.ZeroInt()
	for i := 0; i < 2; i++ {
		if rt.Choose(2) == 1 {
			l := rt.BigInt("acc"+string(rune('0'+i))+".locked", 0, 128)
			_ = k.SetLockedUndForAccount(ctx, enttypes.LockedUnd{Owner: Addr(i).String(), Amount: sdk.NewCoin("nund", l)})
			sum = sum.Add(l)
		}
	}
	total, escrow := rt.BigInt("total", 0, 130), rt.BigInt("escrow", 0, 130)
	if rt.Choose(2) == 1 {
		_ = k.SetTotalLockedUnd(ctx, sdk.NewCoin("nund", total))
	} else {
		rt.Assume(rt.IntEq(total, sdk.ZeroInt())) // no total recorded yet reads as zero
	}
	ee.Bank.Fund(ee.Escrow, "nund", escrow)
	var broken bool
	panicked := rt.Catch(func() { _, broken = entkeeper.ModuleAccountInvariant(k)(ctx) })
	rt.Assert("C04+C14.ent-invariant-no-panic", !panicked)
	if panicked {
		return
	}
	balanced := rt.And(rt.IntEq(escrow, total), rt.IntEq(total, sum))
	rt.Assert("C04+C14.ent-invariant-broken-iff-books-unbalanced", rt.Iff(broken, !balanced))
	_, b2 := entkeeper.AllInvariants(k)(ctx)
	rt.Assert("C04.ent-all-invariants-include-it", b2 == broken)
	rt.Reach("end")
}

// H_C10_Invariant: the registered stream invariant reports broken exactly when the escrow balance
// differs, in some denomination, from the sum of the stored deposits.
func H_C10_Invariant() {
	now := AnyBlockTime("now")
	se := NewStreamEnv(now)
	k, ctx := se.K, se.Ctx
	sumN, sumO := sdk.ZeroInt(), sdk.ZeroInt()
	type pair struct{ R, S int }
	for i, pr := range []pair{{0, 1}, {1, 0}, {0, 2}} {
		if rt.Choose(2) == 1 {
			tag := "s" + string(rune('0'+i))
			dep := rt.BigInt(tag+".deposit", 0, 128)
			denom := "nund"
			if i == 2 {
				denom = "other"
				sumO = sumO.Add(dep)
			} else {
				sumN = sumN.Add(dep)
			}
			_ = k.SetStream(ctx, Addr(pr.R), Addr(pr.S), streamtypes.Stream{Deposit: sdk.NewCoin(denom, dep), FlowRate: 1, LastOutflowTime: now, DepositZeroTime: now})
		}
	}
	escN, escO := rt.BigInt("escrow.nund", 0, 130), rt.BigInt("escrow.other", 0, 130)
	se.Bank.Fund(se.Escrow, "nund", escN)
	se.Bank.Fund(se.Escrow, "other", escO)
	var broken bool
	panicked := rt.Catch(func() { _, broken = streamkeeper.ModuleAccountInvariant(k)(ctx) })
	balanced := rt.And(rt.IntEq(escN, sumN), rt.IntEq(escO, sumO))
	// In an UNBALANCED state the SDK's Coins.IsEqual may panic instead of answering (same number of
	// denominations, different names): crisis halts the chain on a broken invariant either way, so
	// only the balanced case must be panic-free; a panic is accepted as "broken".
	rt.Assert("C10+C14.stream-invariant-no-panic-when-balanced", rt.Implies(balanced, !panicked))
	if panicked {
		rt.Reach("panicked-unbalanced")
		return
	}
	rt.Assert("C10+C14.stream-invariant-broken-iff-escrow-differs-from-deposits", rt.Iff(broken, !balanced))
	rt.Reach("end")
}
