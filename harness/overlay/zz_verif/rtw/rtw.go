// Package rtw is the runtime of the wiring harnesses. Under the symbolic engine the functions are
// answered from the go/ssa of the application package (the argument expression of a constructor
// call is constant-folded with the engine's own intrinsics, call sequences are read in source
// order); the bodies below are the NATIVE face used at replay: the real application is built with
// app.Setup and asked directly.
package rtw

import (
	"bytes"
	"fmt"
	"context"
	"io"
	"math/rand"
	"net/http/httptest"
	"reflect"
	"testing"
	"unsafe"

	abci "github.com/cometbft/cometbft/abci/types"
	tmbytes "github.com/cometbft/cometbft/libs/bytes"
	"github.com/cometbft/cometbft/libs/log"
	rpcclient "github.com/cometbft/cometbft/rpc/client"
	coretypes "github.com/cometbft/cometbft/rpc/core/types"
	"github.com/cosmos/cosmos-sdk/client"
	"github.com/cosmos/cosmos-sdk/server/api"
	"github.com/cosmos/cosmos-sdk/server/config"
	tmproto "github.com/cometbft/cometbft/proto/tendermint/types"
	tmtypes "github.com/cometbft/cometbft/types"
	"github.com/cosmos/cosmos-sdk/crypto/keys/secp256k1"
	storetypes "github.com/cosmos/cosmos-sdk/store/types"
	simtestutil "github.com/cosmos/cosmos-sdk/testutil/sims"
	sdk "github.com/cosmos/cosmos-sdk/types"
	authtypes "github.com/cosmos/cosmos-sdk/x/auth/types"
	banktypes "github.com/cosmos/cosmos-sdk/x/bank/types"
	paramstypes "github.com/cosmos/cosmos-sdk/x/params/types"
	"github.com/cosmos/ibc-go/v7/testing/mock"
	"github.com/spf13/cobra"
	"github.com/spf13/pflag"

	"github.com/unification-com/mainchain/app"
	undcmd "github.com/unification-com/mainchain/cmd/und/cmd"
	undtypes "github.com/unification-com/mainchain/types"
	beacontypes "github.com/unification-com/mainchain/x/beacon/types"
	enttypes "github.com/unification-com/mainchain/x/enterprise/types"
	wrktypes "github.com/unification-com/mainchain/x/wrkchain/types"
)

var theApp *app.App

func realApp() *app.App {
	if theApp == nil {
		rootCmd()
		theApp = app.Setup(&testing.T{}, false)
	}
	return theApp
}

// Static reports whether static (SSA) facts are available: true under the engine.
func Static() bool { return false }

// KeeperAuthority: the authority string module's keeper is constructed with in app.NewApp.
func KeeperAuthority(module string) string {
	a := realApp()
	switch module {
	case "enterprise":
		return a.EnterpriseKeeper.GetAuthority()
	case "wrkchain":
		return a.WrkchainKeeper.GetAuthority()
	case "beacon":
		return a.BeaconKeeper.GetAuthority()
	case "stream":
		return a.StreamKeeper.GetAuthority()
	}
	return ""
}

// StaticTrace: calls (static callee names, "invoke:<method>") and constant map lookups
// ("lookup:<key>") of the named function, in source order. Not available natively.
func StaticTrace(fn string) []string { return nil }

// KeeperStoreKey: the name of the store key module's keeper is constructed over. Engine: the
// constant map key of the `keys[...]` lookup that feeds the constructor call in app.NewApp;
// natively: the (unexported) storeKey field of the real application's keeper.
func KeeperStoreKey(module string) string {
	a := realApp()
	var k interface{}
	switch module {
	case "enterprise":
		k = &a.EnterpriseKeeper
	case "wrkchain":
		k = &a.WrkchainKeeper
	case "beacon":
		k = &a.BeaconKeeper
	case "stream":
		k = &a.StreamKeeper
	default:
		return ""
	}
	f := reflect.ValueOf(k).Elem().FieldByName("storeKey")
	f = reflect.NewAt(f.Type(), unsafe.Pointer(f.UnsafeAddr())).Elem()
	sk, ok := f.Interface().(storetypes.StoreKey)
	if !ok || sk == nil {
		return ""
	}
	return sk.Name()
}

// StaticCallArgFields / StaticStructInit: SSA facts (see engine/intr_static.go); not available natively.
func StaticCallArgFields(fn, calleeSubstr string) []string { return nil }
func StaticStructInit(fn, typeSubstr string) []string      { return nil }

// InitGenesisOrder: the order in which the module manager initialises modules from genesis.
// Engine: the constant list passed to SetOrderInitGenesis in app.NewApp; natively: the real
// application's ModuleManager.OrderInitGenesis.
func InitGenesisOrder() []string { return append([]string{}, realApp().ModuleManager.OrderInitGenesis...) }

// StreamFeeCollector: the module-account name the stream keeper pays validator fees to. Engine:
// the constant passed as feeCollectorName to streamkeeper.NewKeeper in app.NewApp; natively: the
// (unexported) field of the real application's keeper.
func StreamFeeCollector() string {
	a := realApp()
	f := reflect.ValueOf(&a.StreamKeeper).Elem().FieldByName("feeCollectorName")
	return f.String()
}

// BeginBlockOrder: the order in which the module manager runs the modules' BeginBlock.
func BeginBlockOrder() []string { return append([]string{}, realApp().ModuleManager.OrderBeginBlockers...) }

// ---- native probes through the real ABCI CheckTx of the fully wired application ----
//
// The probes are the NATIVE confirmation of static ante-wiring facts. The real application is
// started from genesis with two funded accounts (0: liquid nund; 1: NO liquid nund, only
// Enterprise-locked eFUND), the WRKChain and BEACON modules are given different registration fees
// (1000 / 2000 nund), the block is committed, and signed transactions go through app.CheckTx.
// Not used by the engine (the harnesses derive the same answers from the SSA of
// ante.NewAnteHandler and app.NewApp).

const probeWrkFee, probeBeaconFee = 1000, 2000

type probeEnv struct {
	a     *app.App
	privs []*secp256k1.PrivKey
	cctx  sdk.Context
}

var theProbe *probeEnv

// the command tree of the `und` binary; building it sets and seals the SDK address configuration,
// so it is built once, before anything else touches the configuration
var theRoot *cobra.Command

func rootCmd() *cobra.Command {
	if theRoot == nil {
		theRoot, _ = undcmd.NewRootCmd()
	}
	return theRoot
}

func probe() *probeEnv {
	if theProbe != nil {
		return theProbe
	}
	rootCmd()
	t := &testing.T{}
	config := sdk.GetConfig()
	if config.GetBech32AccountAddrPrefix() != undtypes.Bech32PrefixAccAddr {
		app.SetConfig()
	}
	privVal := mock.NewPV()
	pubKey, err := privVal.GetPubKey()
	if err != nil {
		panic(err)
	}
	valSet := tmtypes.NewValidatorSet([]*tmtypes.Validator{tmtypes.NewValidator(pubKey, 1)})
	pe := &probeEnv{privs: []*secp256k1.PrivKey{secp256k1.GenPrivKey(), secp256k1.GenPrivKey()}}
	var accs []authtypes.GenesisAccount
	var bals []banktypes.Balance
	for i, priv := range pe.privs {
		acc := authtypes.NewBaseAccount(priv.PubKey().Address().Bytes(), priv.PubKey(), 0, 0)
		coins := sdk.NewCoins(sdk.NewCoin(app.TestDenomination, sdk.NewInt(100000000000000)))
		if i == 0 {
			coins = coins.Add(sdk.NewCoin(undtypes.DefaultDenomination, sdk.NewInt(100000000000000)))
		}
		accs = append(accs, acc)
		bals = append(bals, banktypes.Balance{Address: acc.GetAddress().String(), Coins: coins})
	}
	a := app.SetupWithGenesisValSet(t, valSet, accs, bals...)
	header := tmproto.Header{Height: a.LastBlockHeight() + 1}
	dctx := a.BaseApp.NewContext(false, header)
	wp := a.WrkchainKeeper.GetParams(dctx)
	wp.FeeRegister, wp.Denom = probeWrkFee, undtypes.DefaultDenomination
	if err := a.WrkchainKeeper.SetParams(dctx, wp); err != nil {
		panic(err)
	}
	bp := a.BeaconKeeper.GetParams(dctx)
	bp.FeeRegister, bp.Denom = probeBeaconFee, undtypes.DefaultDenomination
	if err := a.BeaconKeeper.SetParams(dctx, bp); err != nil {
		panic(err)
	}
	ep := a.EnterpriseKeeper.GetParams(dctx)
	ep.Denom = undtypes.DefaultDenomination
	if err := a.EnterpriseKeeper.SetParams(dctx, ep); err != nil {
		panic(err)
	}
	if err := a.EnterpriseKeeper.MintCoinsAndLock(dctx, sdk.AccAddress(pe.privs[1].PubKey().Address()), sdk.NewInt64Coin(undtypes.DefaultDenomination, 10*probeBeaconFee)); err != nil {
		panic(err)
	}
	a.EndBlock(abci.RequestEndBlock{Height: header.Height})
	a.Commit()
	pe.a = a
	pe.cctx = a.BaseApp.NewContext(true, tmproto.Header{})
	theProbe = pe
	return pe
}

// checkTx: is a registration message of `kind` from account `who`, paying `fee` nund and signed
// with account number offset `accNumOff` (0 = correctly signed), admitted by CheckTx?
func (pe *probeEnv) checkTx(kind string, who int, fee int64, accNumOff uint64) bool {
	priv := pe.privs[who]
	addr := sdk.AccAddress(priv.PubKey().Address())
	ac := pe.a.AccountKeeper.GetAccount(pe.cctx, addr)
	var msg sdk.Msg
	if kind == "beacon" {
		msg = beacontypes.NewMsgRegisterBeacon("probe", "probe beacon", addr)
	} else {
		msg = wrktypes.NewMsgRegisterWrkChain("probe", "genesishash", "probe wrkchain", "geth", addr)
	}
	txCfg := app.MakeEncodingConfig().TxConfig
	tx, err := simtestutil.GenSignedMockTx(rand.New(rand.NewSource(1)), txCfg, []sdk.Msg{msg}, sdk.NewCoins(sdk.NewInt64Coin(undtypes.DefaultDenomination, fee)), 500000, "",
		[]uint64{ac.GetAccountNumber() + accNumOff}, []uint64{ac.GetSequence()}, priv)
	if err != nil {
		panic(err)
	}
	bz, err := txCfg.TxEncoder()(tx)
	if err != nil {
		panic(err)
	}
	return pe.a.CheckTx(abci.RequestCheckTx{Tx: bz, Type: abci.CheckTxType_New}).Code == abci.CodeTypeOK
}

// ProbeAnteFeeSource: which module's fee parameters is a registration message of `kind`
// ("wrkchain" | "beacon") actually charged? "neither"/"both" if not exactly one.
func ProbeAnteFeeSource(kind string) string {
	pe := probe()
	w, b := pe.checkTx(kind, 0, probeWrkFee, 0), pe.checkTx(kind, 0, probeBeaconFee, 0)
	switch {
	case w && b:
		return "both"
	case w:
		return "wrkchain"
	case b:
		return "beacon"
	}
	return "neither"
}

// ProbeBadSignatureAdmitted: a correctly funded, exact-fee registration whose signature was made
// over the wrong account number.
func ProbeBadSignatureAdmitted() bool { return probe().checkTx("beacon", 0, probeBeaconFee, 7) }

// ProbeLockedOnlyPayerAdmitted: an exact-fee registration from an account with no liquid nund
// whose locked eFUND covers the fee (needs the unlock decorator to run before fee deduction).
func ProbeLockedOnlyPayerAdmitted() bool { return probe().checkTx("beacon", 1, probeBeaconFee, 0) }

// HasModule: is a module of that name registered with the module manager? Engine: answered from
// the constructor calls of app.NewApp.
func HasModule(name string) bool { _, ok := realApp().ModuleManager.Modules[name]; return ok }

// ---- native probes of the supply endpoints (C17) ----

// recordingRPC stands in for the node's RPC client of a client.Context: every ABCI query is
// recorded (its path is the gRPC method name) and answered by the real application.
type recordingRPC struct {
	client.TendermintRPC
	a     *app.App
	paths []string
}

func (r *recordingRPC) ABCIQueryWithOptions(_ context.Context, path string, data tmbytes.HexBytes, opts rpcclient.ABCIQueryOptions) (*coretypes.ResultABCIQuery, error) {
	r.paths = append(r.paths, path)
	res := r.a.Query(abci.RequestQuery{Path: path, Data: data, Height: opts.Height, Prove: opts.Prove})
	return &coretypes.ResultABCIQuery{Response: res}, nil
}

func recordingClientCtx() (client.Context, *recordingRPC) {
	a := probe().a
	enc := app.MakeEncodingConfig()
	rec := &recordingRPC{a: a}
	ctx := client.Context{}.WithCodec(enc.Codec).WithInterfaceRegistry(enc.InterfaceRegistry).WithTxConfig(enc.TxConfig).
		WithLegacyAmino(enc.Amino).WithClient(rec).WithOutput(io.Discard).WithChainID("probe")
	return ctx, rec
}

// ProbeRESTMethod: the gRPC method that serves an HTTP GET of `path` on the API server's
// gRPC-gateway router after the application has registered its routes ("" if none was called).
func ProbeRESTMethod(path string) string {
	ctx, rec := recordingClientCtx()
	srv := api.New(ctx, log.NewNopLogger())
	probe().a.RegisterAPIRoutes(srv, config.APIConfig{})
	srv.GRPCGatewayRouter.ServeHTTP(httptest.NewRecorder(), httptest.NewRequest("GET", path, nil))
	if len(rec.paths) == 0 {
		return ""
	}
	return rec.paths[0]
}

// ProbeCLIMethod: the gRPC method the `und` command line calls for e.g. `query bank total`
// (cmdPath = "query", "bank", "total"); flags are given as "--name=value" strings.
func ProbeCLIMethod(flagsAndPath ...string) string {
	ctx, rec := recordingClientCtx()
	root := rootCmd()
	var path, fl []string
	for _, x := range flagsAndPath {
		if len(x) > 2 && x[:2] == "--" {
			fl = append(fl, x)
		} else {
			path = append(path, x)
		}
	}
	c, _, err := root.Find(path)
	if err != nil || c == nil || c.RunE == nil {
		return "no-such-command"
	}
	if err := c.ParseFlags(fl); err != nil {
		return "flags: " + err.Error()
	}
	c.SetContext(context.WithValue(context.Background(), client.ClientContextKey, &ctx))
	c.SetOut(io.Discard)
	c.SetErr(io.Discard)
	err = c.RunE(c, nil)
	c.Flags().Visit(func(f *pflag.Flag) { _ = f.Value.Set(f.DefValue); f.Changed = false })
	if err != nil {
		return "error: " + err.Error()
	}
	if len(rec.paths) == 0 {
		return ""
	}
	return rec.paths[0]
}

// ---- command-line glue (C19: `und convert`) ----

var printed *bytes.Buffer

// PrepareCmd gives a cobra command the client context its RunE expects, with the output captured.
// Engine: client.GetClientQueryContext is an empty context and PrintString appends to the path's
// output.
func PrepareCmd(c *cobra.Command) {
	printed = new(bytes.Buffer)
	ctx := client.Context{}.WithOutput(printed)
	c.SetContext(context.WithValue(context.Background(), client.ClientContextKey, &ctx))
}

// Printed: everything the command printed through the client context since PrepareCmd.
func Printed() string {
	if printed == nil {
		return ""
	}
	return printed.String()
}

// ---- upgrade / migration wiring (C16) ----

// ModuleLegacySubspace: the name of the x/params subspace the module's AppModule was constructed
// with (the source of its 2->3 parameter migration). Engine: the constant of the
// app.GetSubspace(...) call that feeds <module>.NewAppModule in app.NewApp; natively: the
// (unexported) legacySubspace field of the module registered with the real module manager.
func ModuleLegacySubspace(module string) string {
	m, ok := realApp().ModuleManager.Modules[module]
	if !ok {
		return "no-such-module"
	}
	v := reflect.ValueOf(m)
	if v.Kind() == reflect.Ptr {
		v = v.Elem()
	}
	nv := reflect.New(v.Type()).Elem()
	nv.Set(v)
	f := nv.FieldByName("legacySubspace")
	if !f.IsValid() {
		return "no-legacy-subspace-field"
	}
	f = reflect.NewAt(f.Type(), unsafe.Pointer(f.UnsafeAddr())).Elem()
	if ss, ok := f.Interface().(paramstypes.Subspace); ok {
		return ss.Name()
	}
	return "not-a-params-subspace"
}

// StaticCallConstArgs: SSA fact (constant arguments of a call), not available natively.
func StaticCallConstArgs(fn, calleeSubstr string) []string { return nil }

// ProbeUpgradeMigration runs the real module manager's migrations for `module` from consensus
// version 2 on the real application: the module's x/params subspace is given distinctive legacy
// parameters, the parameters in the module store are removed, RunMigrations is called with the
// module at version 2, and the keeper must then read exactly the legacy parameters. Returns "ok"
// or what went wrong. The state changes are made on a cached context and discarded.
func ProbeUpgradeMigration(module string) (res string) {
	defer func() {
		if r := recover(); r != nil {
			res = fmt.Sprintf("panic: %v", r)
		}
	}()
	a := probe().a
	// the check state (the deliver state does not exist between blocks); writes go to a cache
	ctx := a.BaseApp.NewContext(true, tmproto.Header{Height: a.LastBlockHeight() + 1})
	ctx, _ = ctx.CacheContext()
	store := ctx.KVStore(a.GetKey(module))
	ss := a.GetSubspace(module)
	wl := wrktypes.NewParams(1101, 1102, 1103, "nund", 1104, 1105)
	bl := beacontypes.NewParams(2101, 2102, 2103, "nund", 2104, 2105)
	el := enttypes.NewParams("nund", 1, 3101, sdk.AccAddress(probe().privs[0].PubKey().Address()).String())
	switch module {
	case "wrkchain":
		ss.SetParamSet(ctx, &wl)
		store.Delete(wrktypes.ParamsKey)
	case "beacon":
		ss.SetParamSet(ctx, &bl)
		store.Delete(beacontypes.ParamsKey)
	case "enterprise":
		ss.SetParamSet(ctx, &el)
		store.Delete(enttypes.ParamsKey)
	default:
		return "unknown module"
	}
	vm := a.ModuleManager.GetVersionMap()
	vm[module] = 2
	if _, err := a.ModuleManager.RunMigrations(ctx, a.Configurator(), vm); err != nil {
		return "error: " + err.Error()
	}
	switch module {
	case "wrkchain":
		if a.WrkchainKeeper.GetParams(ctx) != wl {
			return "wrkchain parameters after the migration differ from the legacy ones"
		}
	case "beacon":
		if a.BeaconKeeper.GetParams(ctx) != bl {
			return "beacon parameters after the migration differ from the legacy ones"
		}
	case "enterprise":
		if a.EnterpriseKeeper.GetParams(ctx) != el {
			return "enterprise parameters after the migration differ from the legacy ones"
		}
	}
	return "ok"
}
