// Package rtw is the runtime of the wiring harnesses. Under the symbolic engine the functions are
// answered from the go/ssa of the application package (the argument expression of a constructor
// call is constant-folded with the engine's own intrinsics, call sequences are read in source
// order); the bodies below are the NATIVE face used at replay: the real application is built with
// app.Setup and asked directly.
package rtw

import (
	"bytes"
	"fmt"
	"context"
	"io"
	"math/rand"
	"net/http/httptest"
	"reflect"
	"testing"
	"time"
	"unsafe"

	abci "github.com/cometbft/cometbft/abci/types"
	tmbytes "github.com/cometbft/cometbft/libs/bytes"
	"github.com/cometbft/cometbft/libs/log"
	rpcclient "github.com/cometbft/cometbft/rpc/client"
	coretypes "github.com/cometbft/cometbft/rpc/core/types"
	"github.com/cosmos/cosmos-sdk/client"
	"github.com/cosmos/cosmos-sdk/server/api"
	"github.com/cosmos/cosmos-sdk/server/config"
	tmproto "github.com/cometbft/cometbft/proto/tendermint/types"
	tmtypes "github.com/cometbft/cometbft/types"
	"github.com/cosmos/cosmos-sdk/crypto/keys/secp256k1"
	storetypes "github.com/cosmos/cosmos-sdk/store/types"
	simtestutil "github.com/cosmos/cosmos-sdk/testutil/sims"
	sdk "github.com/cosmos/cosmos-sdk/types"
	authtypes "github.com/cosmos/cosmos-sdk/x/auth/types"
	banktypes "github.com/cosmos/cosmos-sdk/x/bank/types"
	vestingtypes "github.com/cosmos/cosmos-sdk/x/auth/vesting/types"
	paramstypes "github.com/cosmos/cosmos-sdk/x/params/types"
	"github.com/cosmos/ibc-go/v7/testing/mock"
	"github.com/spf13/cobra"
	"github.com/spf13/pflag"

	"github.com/unification-com/mainchain/app"
	undcmd "github.com/unification-com/mainchain/cmd/und/cmd"
	undtypes "github.com/unification-com/mainchain/types"
	beacontypes "github.com/unification-com/mainchain/x/beacon/types"
	enttypes "github.com/unification-com/mainchain/x/enterprise/types"
	wrktypes "github.com/unification-com/mainchain/x/wrkchain/types"
	"github.com/unification-com/mainchain/zz_verif/model"
)

var theApp *app.App

func realApp() *app.App {
	if theApp == nil {
		rootCmd()
		theApp = app.Setup(&testing.T{}, false)
	}
	return theApp
}

// Static reports whether static (SSA) facts are available: true under the engine.
func Static() bool { return false }

// KeeperAuthority: the authority string module's keeper is constructed with in app.NewApp.
func KeeperAuthority(module string) string {
	a := realApp()
	switch module {
	case "enterprise":
		return a.EnterpriseKeeper.GetAuthority()
	case "wrkchain":
		return a.WrkchainKeeper.GetAuthority()
	case "beacon":
		return a.BeaconKeeper.GetAuthority()
	case "stream":
		return a.StreamKeeper.GetAuthority()
	}
	return ""
}

// StaticTrace: calls (static callee names, "invoke:<method>") and constant map lookups
// ("lookup:<key>") of the named function, in source order. Not available natively.
func StaticTrace(fn string) []string { return nil }

// KeeperStoreKey: the name of the store key module's keeper is constructed over. Engine: the
// constant map key of the `keys[...]` lookup that feeds the constructor call in app.NewApp;
// natively: the (unexported) storeKey field of the real application's keeper.
func KeeperStoreKey(module string) string {
	a := realApp()
	var k interface{}
	switch module {
	case "enterprise":
		k = &a.EnterpriseKeeper
	case "wrkchain":
		k = &a.WrkchainKeeper
	case "beacon":
		k = &a.BeaconKeeper
	case "stream":
		k = &a.StreamKeeper
	default:
		return ""
	}
	f := reflect.ValueOf(k).Elem().FieldByName("storeKey")
	f = reflect.NewAt(f.Type(), unsafe.Pointer(f.UnsafeAddr())).Elem()
	sk, ok := f.Interface().(storetypes.StoreKey)
	if !ok || sk == nil {
		return ""
	}
	return sk.Name()
}

// StaticCallArgFields / StaticStructInit: SSA facts (see engine/intr_static.go); not available natively.
func StaticCallArgFields(fn, calleeSubstr string) []string { return nil }
func StaticStructInit(fn, typeSubstr string) []string      { return nil }

// InitGenesisOrder: the order in which the module manager initialises modules from genesis.
// Engine: the constant list passed to SetOrderInitGenesis in app.NewApp; natively: the real
// application's ModuleManager.OrderInitGenesis.
func InitGenesisOrder() []string { return append([]string{}, realApp().ModuleManager.OrderInitGenesis...) }

// StreamFeeCollector: the module-account name the stream keeper pays validator fees to. Engine:
// the constant passed as feeCollectorName to streamkeeper.NewKeeper in app.NewApp; natively: the
// (unexported) field of the real application's keeper.
func StreamFeeCollector() string {
	a := realApp()
	f := reflect.ValueOf(&a.StreamKeeper).Elem().FieldByName("feeCollectorName")
	return f.String()
}

// BeginBlockOrder: the order in which the module manager runs the modules' BeginBlock.
func BeginBlockOrder() []string { return append([]string{}, realApp().ModuleManager.OrderBeginBlockers...) }

// ---- native probes through the real ABCI CheckTx of the fully wired application ----
//
// The probes are the NATIVE confirmation of static ante-wiring facts. The real application is
// started from genesis with two funded accounts (0: liquid nund; 1: NO liquid nund, only
// Enterprise-locked eFUND), the WRKChain and BEACON modules are given different registration fees
// (1000 / 2000 nund), the block is committed, and signed transactions go through app.CheckTx.
// Not used by the engine (the harnesses derive the same answers from the SSA of
// ante.NewAnteHandler and app.NewApp).

const probeWrkFee, probeBeaconFee = 1000, 2000

type probeEnv struct {
	a     *app.App
	privs []*secp256k1.PrivKey
	cctx  sdk.Context
}

var theProbe *probeEnv

// the command tree of the `und` binary; building it sets and seals the SDK address configuration,
// so it is built once, before anything else touches the configuration
var theRoot *cobra.Command

func rootCmd() *cobra.Command {
	if theRoot == nil {
		theRoot, _ = undcmd.NewRootCmd()
	}
	return theRoot
}

func probe() *probeEnv {
	if theProbe != nil {
		return theProbe
	}
	rootCmd()
	t := &testing.T{}
	config := sdk.GetConfig()
	if config.GetBech32AccountAddrPrefix() != undtypes.Bech32PrefixAccAddr {
		app.SetConfig()
	}
	privVal := mock.NewPV()
	pubKey, err := privVal.GetPubKey()
	if err != nil {
		panic(err)
	}
	valSet := tmtypes.NewValidatorSet([]*tmtypes.Validator{tmtypes.NewValidator(pubKey, 1)})
	pe := &probeEnv{privs: []*secp256k1.PrivKey{secp256k1.GenPrivKey(), secp256k1.GenPrivKey()}}
	var accs []authtypes.GenesisAccount
	var bals []banktypes.Balance
	for i, priv := range pe.privs {
		acc := authtypes.NewBaseAccount(priv.PubKey().Address().Bytes(), priv.PubKey(), 0, 0)
		coins := sdk.NewCoins(sdk.NewCoin(app.TestDenomination, sdk.NewInt(100000000000000)))
		if i == 0 {
			coins = coins.Add(sdk.NewCoin(undtypes.DefaultDenomination, sdk.NewInt(100000000000000)))
		}
		accs = append(accs, acc)
		bals = append(bals, banktypes.Balance{Address: acc.GetAddress().String(), Coins: coins})
	}
	a := app.SetupWithGenesisValSet(t, valSet, accs, bals...)
	header := tmproto.Header{Height: a.LastBlockHeight() + 1}
	dctx := a.BaseApp.NewContext(false, header)
	wp := a.WrkchainKeeper.GetParams(dctx)
	wp.FeeRegister, wp.Denom = probeWrkFee, undtypes.DefaultDenomination
	if err := a.WrkchainKeeper.SetParams(dctx, wp); err != nil {
		panic(err)
	}
	bp := a.BeaconKeeper.GetParams(dctx)
	bp.FeeRegister, bp.Denom = probeBeaconFee, undtypes.DefaultDenomination
	if err := a.BeaconKeeper.SetParams(dctx, bp); err != nil {
		panic(err)
	}
	ep := a.EnterpriseKeeper.GetParams(dctx)
	ep.Denom = undtypes.DefaultDenomination
	if err := a.EnterpriseKeeper.SetParams(dctx, ep); err != nil {
		panic(err)
	}
	if err := a.EnterpriseKeeper.MintCoinsAndLock(dctx, sdk.AccAddress(pe.privs[1].PubKey().Address()), sdk.NewInt64Coin(undtypes.DefaultDenomination, 10*probeBeaconFee)); err != nil {
		panic(err)
	}
	a.EndBlock(abci.RequestEndBlock{Height: header.Height})
	a.Commit()
	pe.a = a
	pe.cctx = a.BaseApp.NewContext(true, tmproto.Header{})
	theProbe = pe
	return pe
}

// checkTx: is a registration message of `kind` from account `who`, paying `fee` nund and signed
// with account number offset `accNumOff` (0 = correctly signed), admitted by CheckTx?
func (pe *probeEnv) checkTx(kind string, who int, fee int64, accNumOff uint64) bool {
	priv := pe.privs[who]
	addr := sdk.AccAddress(priv.PubKey().Address())
	ac := pe.a.AccountKeeper.GetAccount(pe.cctx, addr)
	var msg sdk.Msg
	if kind == "beacon" {
		msg = beacontypes.NewMsgRegisterBeacon("probe", "probe beacon", addr)
	} else {
		msg = wrktypes.NewMsgRegisterWrkChain("probe", "genesishash", "probe wrkchain", "geth", addr)
	}
	txCfg := app.MakeEncodingConfig().TxConfig
	tx, err := simtestutil.GenSignedMockTx(rand.New(rand.NewSource(1)), txCfg, []sdk.Msg{msg}, sdk.NewCoins(sdk.NewInt64Coin(undtypes.DefaultDenomination, fee)), 500000, "",
		[]uint64{ac.GetAccountNumber() + accNumOff}, []uint64{ac.GetSequence()}, priv)
	if err != nil {
		panic(err)
	}
	bz, err := txCfg.TxEncoder()(tx)
	if err != nil {
		panic(err)
	}
	return pe.a.CheckTx(abci.RequestCheckTx{Tx: bz, Type: abci.CheckTxType_New}).Code == abci.CodeTypeOK
}

// ProbeAnteFeeSource: which module's fee parameters is a registration message of `kind`
// ("wrkchain" | "beacon") actually charged? "neither"/"both" if not exactly one.
func ProbeAnteFeeSource(kind string) string {
	pe := probe()
	w, b := pe.checkTx(kind, 0, probeWrkFee, 0), pe.checkTx(kind, 0, probeBeaconFee, 0)
	switch {
	case w && b:
		return "both"
	case w:
		return "wrkchain"
	case b:
		return "beacon"
	}
	return "neither"
}

// ProbeBadSignatureAdmitted: a correctly funded, exact-fee registration whose signature was made
// over the wrong account number.
func ProbeBadSignatureAdmitted() bool { return probe().checkTx("beacon", 0, probeBeaconFee, 7) }

// ProbeLockedOnlyPayerAdmitted: an exact-fee registration from an account with no liquid nund
// whose locked eFUND covers the fee (needs the unlock decorator to run before fee deduction).
func ProbeLockedOnlyPayerAdmitted() bool { return probe().checkTx("beacon", 1, probeBeaconFee, 0) }

// HasModule: is a module of that name registered with the module manager? Engine: answered from
// the constructor calls of app.NewApp.
func HasModule(name string) bool { _, ok := realApp().ModuleManager.Modules[name]; return ok }

// ---- native probes of the supply endpoints (C17) ----

// recordingRPC stands in for the node's RPC client of a client.Context: every ABCI query is
// recorded (its path is the gRPC method name) and answered by the real application.
type recordingRPC struct {
	client.TendermintRPC
	a     *app.App
	paths []string
}

func (r *recordingRPC) ABCIQueryWithOptions(_ context.Context, path string, data tmbytes.HexBytes, opts rpcclient.ABCIQueryOptions) (*coretypes.ResultABCIQuery, error) {
	r.paths = append(r.paths, path)
	res := r.a.Query(abci.RequestQuery{Path: path, Data: data, Height: opts.Height, Prove: opts.Prove})
	return &coretypes.ResultABCIQuery{Response: res}, nil
}

func recordingClientCtx() (client.Context, *recordingRPC) {
	a := probe().a
	enc := app.MakeEncodingConfig()
	rec := &recordingRPC{a: a}
	ctx := client.Context{}.WithCodec(enc.Codec).WithInterfaceRegistry(enc.InterfaceRegistry).WithTxConfig(enc.TxConfig).
		WithLegacyAmino(enc.Amino).WithClient(rec).WithOutput(io.Discard).WithChainID("probe")
	return ctx, rec
}

// ProbeRESTMethod: the gRPC method that serves an HTTP GET of `path` on the API server's
// gRPC-gateway router after the application has registered its routes ("" if none was called).
func ProbeRESTMethod(path string) string {
	ctx, rec := recordingClientCtx()
	srv := api.New(ctx, log.NewNopLogger())
	probe().a.RegisterAPIRoutes(srv, config.APIConfig{})
	srv.GRPCGatewayRouter.ServeHTTP(httptest.NewRecorder(), httptest.NewRequest("GET", path, nil))
	if len(rec.paths) == 0 {
		return ""
	}
	return rec.paths[0]
}

// ProbeCLIMethod: the gRPC method the `und` command line calls for e.g. `query bank total`
// (cmdPath = "query", "bank", "total"); flags are given as "--name=value" strings.
func ProbeCLIMethod(flagsAndPath ...string) string {
	ctx, rec := recordingClientCtx()
	root := rootCmd()
	var path, fl []string
	for _, x := range flagsAndPath {
		if len(x) > 2 && x[:2] == "--" {
			fl = append(fl, x)
		} else {
			path = append(path, x)
		}
	}
	c, _, err := root.Find(path)
	if err != nil || c == nil || c.RunE == nil {
		return "no-such-command"
	}
	if err := c.ParseFlags(fl); err != nil {
		return "flags: " + err.Error()
	}
	c.SetContext(context.WithValue(context.Background(), client.ClientContextKey, &ctx))
	c.SetOut(io.Discard)
	c.SetErr(io.Discard)
	err = c.RunE(c, nil)
	c.Flags().Visit(func(f *pflag.Flag) { _ = f.Value.Set(f.DefValue); f.Changed = false })
	if err != nil {
		return "error: " + err.Error()
	}
	if len(rec.paths) == 0 {
		return ""
	}
	return rec.paths[0]
}

// ---- command-line glue (C19: `und convert`) ----

var printed *bytes.Buffer

// PrepareCmd gives a cobra command the client context its RunE expects, with the output captured.
// Engine: client.GetClientQueryContext is an empty context and PrintString appends to the path's
// output.
func PrepareCmd(c *cobra.Command) {
	printed = new(bytes.Buffer)
	ctx := client.Context{}.WithOutput(printed)
	c.SetContext(context.WithValue(context.Background(), client.ClientContextKey, &ctx))
}

// Printed: everything the command printed through the client context since PrepareCmd.
func Printed() string {
	if printed == nil {
		return ""
	}
	return printed.String()
}

// ---- upgrade / migration wiring (C16) ----

// ModuleLegacySubspace: the name of the x/params subspace the module's AppModule was constructed
// with (the source of its 2->3 parameter migration). Engine: the constant of the
// app.GetSubspace(...) call that feeds <module>.NewAppModule in app.NewApp; natively: the
// (unexported) legacySubspace field of the module registered with the real module manager.
func ModuleLegacySubspace(module string) string {
	m, ok := realApp().ModuleManager.Modules[module]
	if !ok {
		return "no-such-module"
	}
	v := reflect.ValueOf(m)
	if v.Kind() == reflect.Ptr {
		v = v.Elem()
	}
	nv := reflect.New(v.Type()).Elem()
	nv.Set(v)
	f := nv.FieldByName("legacySubspace")
	if !f.IsValid() {
		return "no-legacy-subspace-field"
	}
	f = reflect.NewAt(f.Type(), unsafe.Pointer(f.UnsafeAddr())).Elem()
	if ss, ok := f.Interface().(paramstypes.Subspace); ok {
		return ss.Name()
	}
	return "not-a-params-subspace"
}

// StaticCallConstArgs: SSA fact (constant arguments of a call), not available natively.
func StaticCallConstArgs(fn, calleeSubstr string) []string { return nil }

// ProbeUpgradeMigration runs the real module manager's migrations for `module` from consensus
// version 2 on the real application: the module's x/params subspace is given distinctive legacy
// parameters, the parameters in the module store are removed, RunMigrations is called with the
// module at version 2, and the keeper must then read exactly the legacy parameters. Returns "ok"
// or what went wrong. The state changes are made on a cached context and discarded.
func ProbeUpgradeMigration(module string) (res string) {
	defer func() {
		if r := recover(); r != nil {
			res = fmt.Sprintf("panic: %v", r)
		}
	}()
	a := probe().a
	// the check state (the deliver state does not exist between blocks); writes go to a cache
	ctx := a.BaseApp.NewContext(true, tmproto.Header{Height: a.LastBlockHeight() + 1})
	ctx, _ = ctx.CacheContext()
	store := ctx.KVStore(a.GetKey(module))
	ss := a.GetSubspace(module)
	wl := wrktypes.NewParams(1101, 1102, 1103, "nund", 1104, 1105)
	bl := beacontypes.NewParams(2101, 2102, 2103, "nund", 2104, 2105)
	el := enttypes.NewParams("nund", 1, 3101, sdk.AccAddress(probe().privs[0].PubKey().Address()).String())
	switch module {
	case "wrkchain":
		ss.SetParamSet(ctx, &wl)
		store.Delete(wrktypes.ParamsKey)
	case "beacon":
		ss.SetParamSet(ctx, &bl)
		store.Delete(beacontypes.ParamsKey)
	case "enterprise":
		ss.SetParamSet(ctx, &el)
		store.Delete(enttypes.ParamsKey)
	default:
		return "unknown module"
	}
	vm := a.ModuleManager.GetVersionMap()
	vm[module] = 2
	if _, err := a.ModuleManager.RunMigrations(ctx, a.Configurator(), vm); err != nil {
		return "error: " + err.Error()
	}
	switch module {
	case "wrkchain":
		if a.WrkchainKeeper.GetParams(ctx) != wl {
			return "wrkchain parameters after the migration differ from the legacy ones"
		}
	case "beacon":
		if a.BeaconKeeper.GetParams(ctx) != bl {
			return "beacon parameters after the migration differ from the legacy ones"
		}
	case "enterprise":
		if a.EnterpriseKeeper.GetParams(ctx) != el {
			return "enterprise parameters after the migration differ from the legacy ones"
		}
	}
	return "ok"
}

// ---- trusted-base self-check: the bank ledger model against the real SDK bank (C04/C05) ----

// BankModelDiff runs a battery of concrete operation sequences (delegate to / undelegate from the
// enterprise module account for base and vesting accounts with different delegation bookkeeping,
// plain sends, sends beyond the spendable balance, blocked recipients) on the ledger model the
// symbolic harnesses use (zz_verif/model/bank.go) and on the real x/bank + x/auth keepers of the
// real application, and compares after every step: error or not, balances, spendable and locked
// coins, the vesting account's DelegatedVesting/DelegatedFree. Returns "" if they agree, else the
// first difference. Native only (the engine never runs it): it is executed by the native
// self-check of the wiring checks.
func BankModelDiff() (diff string) {
	defer func() {
		if r := recover(); r != nil {
			diff = fmt.Sprintf("panic: %v", r)
		}
	}()
	a := probe().a
	const den = "nund"
	coin := func(n int64) sdk.Coins { return sdk.NewCoins(sdk.NewInt64Coin(den, n)) }
	type scen struct {
		vesting, dv, df, bal int64 // vesting account set-up (vesting == 0: a base account)
		ops                  []int64 // > 0: delegate that much to the module; < 0: undelegate; 0 < |x| always
	}
	scens := []scen{
		{0, 0, 0, 1000, []int64{300, -100, -200, 800}},
		{1000, 0, 0, 1500, []int64{100, 600, 500, -50, -400, -750}},
		{1000, 200, 0, 1500, []int64{900, -900}},
		{1000, 0, 300, 1200, []int64{1200, -1300}},
		{500, 500, 100, 400, []int64{400, -1, -399, -700}},
		{1000, 0, 0, 700, []int64{800, 700, -700}},
	}
	for si, sc := range scens {
		ctx := a.BaseApp.NewContext(true, tmproto.Header{Height: a.LastBlockHeight() + 1, Time: time.Unix(1700000000, 0)})
		ctx, _ = ctx.CacheContext()
		addr := sdk.AccAddress(fmt.Sprintf("bankmodeldiff%07d", si))
		other := sdk.AccAddress(fmt.Sprintf("bankmodelother%06d", si))
		// real side
		base := authtypes.NewBaseAccountWithAddress(addr)
		base.AccountNumber = a.AccountKeeper.NextAccountNumber(ctx)
		if sc.vesting > 0 {
			va := vestingtypes.NewDelayedVestingAccount(base, coin(sc.vesting), 4102444800) // vests in 2100
			if sc.dv > 0 {
				va.DelegatedVesting = coin(sc.dv)
			}
			if sc.df > 0 {
				va.DelegatedFree = coin(sc.df)
			}
			a.AccountKeeper.SetAccount(ctx, va)
		} else {
			a.AccountKeeper.SetAccount(ctx, base)
		}
		// the module account holds what was delegated before (dv + df) plus a float of its own
		pre := sc.dv + sc.df + 5000
		if err := a.BankKeeper.MintCoins(ctx, enttypes.ModuleName, coin(sc.bal+pre)); err != nil {
			return "setup mint: " + err.Error()
		}
		if err := a.BankKeeper.SendCoinsFromModuleToAccount(ctx, enttypes.ModuleName, addr, coin(sc.bal)); err != nil {
			return "setup send: " + err.Error()
		}
		modAddr := authtypes.NewModuleAddress(enttypes.ModuleName)
		modBefore := a.BankKeeper.GetBalance(ctx, modAddr, den).Amount
		// model side
		mb := model.NewBank()
		mb.AddModule(enttypes.ModuleName, authtypes.Minter, authtypes.Staking)
		if sc.vesting > 0 {
			c0 := func(n int64) sdk.Coins {
				if n == 0 {
					return sdk.Coins{}
				}
				return coin(n)
			}
			mb.AddVesting(addr, coin(sc.vesting), c0(sc.dv), c0(sc.df))
		} else {
			mb.AddBase(addr)
		}
		mb.AddBase(other)
		mb.Fund(addr, den, sdk.NewInt(sc.bal))
		mb.Fund(modAddr, den, modBefore)
		cmp := func(step string) string {
			for _, who := range []sdk.AccAddress{addr, modAddr, other} {
				if r, m := a.BankKeeper.GetBalance(ctx, who, den).Amount, mb.Bal(who, den); !r.Equal(m) {
					return fmt.Sprintf("scenario %d %s: balance of %s real %s model %s", si, step, who, r, m)
				}
			}
			if r, m := a.BankKeeper.SpendableCoins(ctx, addr).AmountOf(den), mb.SpendableCoins(ctx, addr).AmountOf(den); !r.Equal(m) {
				return fmt.Sprintf("scenario %d %s: spendable real %s model %s", si, step, r, m)
			}
			if r, m := a.BankKeeper.LockedCoins(ctx, addr).AmountOf(den), mb.LockedCoins(ctx, addr).AmountOf(den); !r.Equal(m) {
				return fmt.Sprintf("scenario %d %s: locked real %s model %s", si, step, r, m)
			}
			if va, ok := a.AccountKeeper.GetAccount(ctx, addr).(*vestingtypes.DelayedVestingAccount); ok {
				for _, acc := range mb.Accounts {
					if acc.Addr.Equals(addr) {
						if !va.DelegatedVesting.AmountOf(den).Equal(acc.DelegatedVesting.AmountOf(den)) || !va.DelegatedFree.AmountOf(den).Equal(acc.DelegatedFree.AmountOf(den)) {
							return fmt.Sprintf("scenario %d %s: delegation books real %s/%s model %s/%s", si, step, va.DelegatedVesting, va.DelegatedFree, acc.DelegatedVesting, acc.DelegatedFree)
						}
					}
				}
			}
			return ""
		}
		if d := cmp("setup"); d != "" {
			return d
		}
		both := func(step string, real, mod func() error) string {
			var re, me error
			rp, mp := false, false
			func() {
				defer func() {
					if recover() != nil {
						rp = true
					}
				}()
				// failed bank operations leave partial writes behind on the real keeper (the caller's
				// transaction is discarded): run each on its own branch and commit only on success
				cc, write := ctx.CacheContext()
				saved := ctx
				ctx = cc
				re = real()
				ctx = saved
				if re == nil {
					write()
				}
			}()
			func() {
				defer func() {
					if recover() != nil {
						mp = true
					}
				}()
				snap := mb.Clone()
				me = mod()
				if me != nil {
					*mb = *snap
				}
			}()
			if rp != mp || (re == nil) != (me == nil) {
				return fmt.Sprintf("scenario %d %s: real err=%v panic=%v, model err=%v panic=%v", si, step, re, rp, me, mp)
			}
			if rp {
				return ""
			}
			return cmp(step)
		}
		for oi, op := range sc.ops {
			step := fmt.Sprintf("op %d (%d)", oi, op)
			var d string
			if op > 0 {
				d = both(step, func() error { return a.BankKeeper.DelegateCoinsFromAccountToModule(ctx, addr, enttypes.ModuleName, coin(op)) },
					func() error { return mb.DelegateCoinsFromAccountToModule(ctx, addr, enttypes.ModuleName, coin(op)) })
			} else {
				d = both(step, func() error { return a.BankKeeper.UndelegateCoinsFromModuleToAccount(ctx, enttypes.ModuleName, addr, coin(-op)) },
					func() error { return mb.UndelegateCoinsFromModuleToAccount(ctx, enttypes.ModuleName, addr, coin(-op)) })
			}
			if d != "" {
				return d
			}
		}
		// a plain send of everything spendable plus one (must fail on both), then of the spendable amount
		sp := a.BankKeeper.SpendableCoins(ctx, addr).AmountOf(den)
		if d := both("send spendable+1", func() error { return a.BankKeeper.SendCoins(ctx, addr, other, sdk.NewCoins(sdk.NewCoin(den, sp.AddRaw(1)))) },
			func() error { return mb.SendCoins(ctx, addr, other, sdk.NewCoins(sdk.NewCoin(den, sp.AddRaw(1)))) }); d != "" {
			return d
		}
		if sp.IsPositive() {
			if d := both("send spendable", func() error { return a.BankKeeper.SendCoins(ctx, addr, other, sdk.NewCoins(sdk.NewCoin(den, sp))) },
				func() error { return mb.SendCoins(ctx, addr, other, sdk.NewCoins(sdk.NewCoin(den, sp))) }); d != "" {
				return d
			}
		}
	}
	return ""
}

// StoreModelDiff: the ordered finite map that stands in for the KV store in every symbolic harness
// (zz_verif/model/store.go) against a real store of the real application (the wrkchain module's
// IAVL-backed store behind the cache-wrapped check state), on a deterministic pseudo-random
// sequence of Set / Delete / Get / Has and forward / reverse iterations over arbitrary [start, end)
// ranges (nil bounds, prefix ranges, empty ranges), comparing every result. "" if they agree.
func StoreModelDiff() (diff string) {
	defer func() {
		if r := recover(); r != nil {
			diff = fmt.Sprintf("panic: %v", r)
		}
	}()
	a := probe().a
	ctx := a.BaseApp.NewContext(true, tmproto.Header{Height: a.LastBlockHeight() + 1})
	ctx, _ = ctx.CacheContext()
	real := ctx.KVStore(a.GetKey(wrktypes.StoreKey))
	// start from an empty real store
	var old [][]byte
	it0 := real.Iterator(nil, nil)
	for ; it0.Valid(); it0.Next() {
		old = append(old, append([]byte{}, it0.Key()...))
	}
	it0.Close()
	for _, k := range old {
		real.Delete(k)
	}
	ms := model.NewMemStore()
	seed := uint64(0x9E3779B97F4A7C15)
	next := func(n uint64) uint64 {
		seed = seed*6364136223846793005 + 1442695040888963407
		return (seed >> 33) % n
	}
	key := func() []byte {
		// short keys over a tiny alphabet so that prefixes, equal keys and neighbours are frequent
		n := 1 + next(3)
		k := make([]byte, n)
		for i := range k {
			k[i] = byte([]byte{0x00, 0x01, 0x7f, 0xff}[next(4)])
		}
		return k
	}
	bound := func() []byte {
		if next(4) == 0 {
			return nil
		}
		return key()
	}
	for step := 0; step < 3000; step++ {
		switch next(6) {
		case 0, 1:
			k, v := key(), []byte{byte(next(250) + 1), byte(step)}
			real.Set(k, v)
			ms.Set(k, v)
		case 2:
			k := key()
			real.Delete(k)
			ms.Delete(k)
		case 3:
			k := key()
			if !bytes.Equal(real.Get(k), ms.Get(k)) || real.Has(k) != ms.Has(k) {
				return fmt.Sprintf("step %d: Get/Has(%x) real %x model %x", step, k, real.Get(k), ms.Get(k))
			}
		default:
			s, e := bound(), bound()
			rev := next(2) == 1
			var ri, mi storetypes.Iterator
			if rev {
				ri, mi = real.ReverseIterator(s, e), ms.ReverseIterator(s, e)
			} else {
				ri, mi = real.Iterator(s, e), ms.Iterator(s, e)
			}
			n := 0
			for ri.Valid() || mi.Valid() {
				if ri.Valid() != mi.Valid() || !bytes.Equal(ri.Key(), mi.Key()) || !bytes.Equal(ri.Value(), mi.Value()) {
					return fmt.Sprintf("step %d: iteration [%x,%x) reverse=%v differs at item %d", step, s, e, rev, n)
				}
				ri.Next()
				mi.Next()
				n++
			}
			ri.Close()
			mi.Close()
		}
	}
	return ""
}
