// Package rtw is the runtime of the wiring harnesses. Under the symbolic engine the functions are
// answered from the go/ssa of the application package (the argument expression of a constructor
// call is constant-folded with the engine's own intrinsics, call sequences are read in source
// order); the bodies below are the NATIVE face used at replay: the real application is built with
// app.Setup and asked directly.
package rtw

import (
	"reflect"
	"testing"
	"unsafe"

	storetypes "github.com/cosmos/cosmos-sdk/store/types"

	"github.com/unification-com/mainchain/app"
)

var theApp *app.App

func realApp() *app.App {
	if theApp == nil {
		theApp = app.Setup(&testing.T{}, false)
	}
	return theApp
}

// Static reports whether static (SSA) facts are available: true under the engine.
func Static() bool { return false }

// KeeperAuthority: the authority string module's keeper is constructed with in app.NewApp.
func KeeperAuthority(module string) string {
	a := realApp()
	switch module {
	case "enterprise":
		return a.EnterpriseKeeper.GetAuthority()
	case "wrkchain":
		return a.WrkchainKeeper.GetAuthority()
	case "beacon":
		return a.BeaconKeeper.GetAuthority()
	case "stream":
		return a.StreamKeeper.GetAuthority()
	}
	return ""
}

// StaticTrace: calls (static callee names, "invoke:<method>") and constant map lookups
// ("lookup:<key>") of the named function, in source order. Not available natively.
func StaticTrace(fn string) []string { return nil }

// KeeperStoreKey: the name of the store key module's keeper is constructed over. Engine: the
// constant map key of the `keys[...]` lookup that feeds the constructor call in app.NewApp;
// natively: the (unexported) storeKey field of the real application's keeper.
func KeeperStoreKey(module string) string {
	a := realApp()
	var k interface{}
	switch module {
	case "enterprise":
		k = &a.EnterpriseKeeper
	case "wrkchain":
		k = &a.WrkchainKeeper
	case "beacon":
		k = &a.BeaconKeeper
	case "stream":
		k = &a.StreamKeeper
	default:
		return ""
	}
	f := reflect.ValueOf(k).Elem().FieldByName("storeKey")
	f = reflect.NewAt(f.Type(), unsafe.Pointer(f.UnsafeAddr())).Elem()
	sk, ok := f.Interface().(storetypes.StoreKey)
	if !ok || sk == nil {
		return ""
	}
	return sk.Name()
}

// StaticCallArgFields / StaticStructInit: SSA facts (see engine/intr_static.go); not available natively.
func StaticCallArgFields(fn, calleeSubstr string) []string { return nil }
func StaticStructInit(fn, typeSubstr string) []string      { return nil }

// InitGenesisOrder: the order in which the module manager initialises modules from genesis.
// Engine: the constant list passed to SetOrderInitGenesis in app.NewApp; natively: the real
// application's ModuleManager.OrderInitGenesis.
func InitGenesisOrder() []string { return append([]string{}, realApp().ModuleManager.OrderInitGenesis...) }

// StreamFeeCollector: the module-account name the stream keeper pays validator fees to. Engine:
// the constant passed as feeCollectorName to streamkeeper.NewKeeper in app.NewApp; natively: the
// (unexported) field of the real application's keeper.
func StreamFeeCollector() string {
	a := realApp()
	f := reflect.ValueOf(&a.StreamKeeper).Elem().FieldByName("feeCollectorName")
	return f.String()
}

// BeginBlockOrder: the order in which the module manager runs the modules' BeginBlock.
func BeginBlockOrder() []string { return append([]string{}, realApp().ModuleManager.OrderBeginBlockers...) }
